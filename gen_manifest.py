#!/usr/bin/env python3
"""Regenerates /verif/MANIFEST.json from the table below (kept in one place so that the
manifest always validates)."""
import json, sys
BASE = json.load(open('/root/.vp/BASELINE.json'))
CHECKS = {
 "C01": dict(
    text="Explicit-state BFS over the real factory+pair+cw20 contracts in cw-multi-test: every sequence of <=3 (quick) / <=4-5 (thorough) deposits, withdrawals, swaps, fee collections and fee changes by 3 users from 13-72 structurally different roots; solvency, LP-value monotonicity (exact 1024-bit integers), pro-rata bounds, deposit->withdraw probe and min-liquidity lock are evaluated on every transition/state.",
    note="Bounded: amounts from a reserve-relative alphabet, depth <= bound. Trusted: cw-multi-test chain semantics, cw20-base, rustc; snapshot/restore validated by genesis replays.",
    tech="explicit-state model checking of the implementation (level-synchronous BFS, full-state fingerprints)", ref="DESIGN.md §4 C01"),
 "C02": dict(
    text="Bounded-exhaustive enumeration (depth-1 exploration, nothing sampled) of the real compute_swap over (boundary values)^3 x 14 fee triples x 3 decimal settings plus a dense cube: 4.2e6 points quick, 2.0e8 thorough; every point compared with an exact 1024-bit oracle (gross price, each fee, return<ask, totality incl. caught panics, there-and-back). A sub-grid is executed on the really deployed pair: Simulation query == hook result and executed there-and-back swaps never gain; the quote is repeated in the state after those swaps (pending protocol fees of both assets) and after two fee updates through the factory, each time against the formula on the reserves the pool reports and the triple in force.",
    note="Covers structured grid points only, not all 2^384 inputs. Totality is judged against the ideal-price spread fitting 128 bits. Trusted: uint crate arithmetic for the oracle.",
    tech="bounded-exhaustive input-grid enumeration on the real function + deployed contract (explicit-state, depth 1)", ref="DESIGN.md §4 C02"),
 "C04": dict(
    text="Explicit-state BFS over the real factory+stableswap_3pool(+cw20): all sequences of <=3 (quick) / <=4 (thorough) deposits, withdrawals, swaps in all six directions, fee collections, fee changes, amp ramps (values on/inside/outside every bound) and block advances; on every transition D is re-solved independently (root pinned by the exact sign predicate of the polynomial) at the operation's effective amp: D/S monotone, mint <= invariant growth, pool keeps the curve reserve up to slope-scaled dust, fee split exact, there-and-back probe, ramp accepted only within bounds, effective amp == independent linear interpolation (also over a full (initial,target,start,stop,now) grid through the hook).",
    note="Bounded alphabets/depth. Rounding dust: 8 base units of D, or 4+4*max dD/dx_i when that fails; swap: 2+2*slope. Three known findings (inexact integer D/y in imbalanced pools) are reported as KNOWN-FINDING.",
    tech="explicit-state model checking of the implementation (BFS) + exhaustive amp grid", ref="DESIGN.md §4 C04"),
 "C05": dict(
    text="Explicit-state BFS over the real vault_factory+vault+cw20 LP+fee collector with a scripted borrower contract: all sequences of <=3/<=4 deposits, withdrawals, flash loans (repay exact/+1000/-1/fail), collections and fee changes from native and cw20 roots (empty, 1001, 1e6, 1e30, with pending fees); share price (B-P)/S monotone in exact integers, pro-rata mint/withdraw bounds, min-liquidity lock, deposit->withdraw probe on every accepted deposit.",
    note="Bounded alphabets/depth; nested loans are exercised by C06.", tech="explicit-state model checking of the implementation (BFS)", ref="DESIGN.md §4 C05"),
 "C07": dict(
    text="Explicit-state BFS over four real scenarios (CP pair, stableswap pair, 3pool, vault), each with a fresh fee collector: operations sized so one charge lands in {0,1,500,999,1000,1001,1e6}; reference ledgers (sums of the charges reported by accepted operations) are compared in every state with pending/all-time/burned queries, collector balance and token supply; every collect (also one issued from inside a flash-loan callback) is checked for exact transfer, no other recipient, unchanged LP reserves.",
    note="Bounded alphabets/depth 3/4. Collector has no other income by construction.", tech="explicit-state model checking of the implementation (BFS) with reference-ledger ghost state", ref="DESIGN.md §4 C07"),
 "C06": dict(
    text="Exhaustive enumeration of the adversary: every borrower script of length <=2 over 11 base behaviours + nested loans (whose callback is again a script of length <=1 quick / <=2 thorough; thorough adds all length-3 scripts) x loan amounts {1,999,1000,1e6,balance,balance+1} x fee triples x {native,cw20} executed on the real vault through a scripted borrower contract, and every vault_router payload of <=2 atoms; per transaction: revert => full-state equality, success => balance growth >= all fees, burn destroyed, ledger growth, LOAN_COUNTER==0, no shares minted, exact payback suffices / one unit less never does, router keeps nothing and forwards the remainder, NextLoan/CompleteLoan guarded.",
    note="Adversary alphabet is finite (no reply-on-error swallowing). One known finding (inner-loan fees offset the outer repayment) reported as KNOWN-FINDING.",
    tech="exhaustive fault-sequence enumeration on the implementation (explicit-state, one transaction deep, scripts up to depth 3 with nesting)", ref="DESIGN.md §4 C06"),
 "C08": dict(
    text="Explicit-state BFS over the real whale_lair wired to the real fee_distributor/collector: all sequences of <=4 (quick, 2 users) / <=5 (thorough, 3 users) bond/unbond/withdraw calls over 2 bonding denoms, invalid calls (foreign denom, cw20, mismatched/no funds, two coins in either order, an extra foreign coin, zero/uncovered unbond) and time steps {same block, +1ns, +period-1ns, +period, +1 day}; a reference ledger built from the accepted calls' arguments is compared in every state with Bonded/TotalBonded/Unbonding/Withdrawable and the bank balance; every withdraw pays exactly the matured unbondings once, to the owner only.",
    note="Bounded alphabets/depth; growth rate 0 (weights are C09's concern); distributor at epoch 0.", tech="explicit-state model checking of the implementation (BFS) against a reference model", ref="DESIGN.md §4 C08"),
 "C11": dict(
    text="Explicit-state BFS over the real incentive_factory+incentive (+ real pair/LP token and frontend_helper), epochs from the repository's fee-distributor-mock: all sequences of <=4/<=5 open/expand (also for a receiver)/close/withdraw/helper-deposit/mis-funded opens/tick/snapshot/claim by 3 users, native and cw20 LP assets, incl. a root whose flow reward is the LP asset; in every state LP balance == sum(open)+sum(closed)+unclaimed LP-asset flow funds and Positions == reference model; every withdraw pays exactly the caller's closed positions and nobody else; positions only with the stated amount received; helper retains nothing.",
    note="Bounded alphabets/depth; withdraw timing is not part of C11.", tech="explicit-state model checking of the implementation (BFS) against a reference model", ref="DESIGN.md §4 C11"),
 "C12": dict(
    text="Explicit-state BFS over the real incentive contract for 4-5 fee/reward configurations (native fee = reward denom, native fee != reward, cw20 fee = reward token, cw20 fee != reward, native fee + cw20 reward): all sequences of <=4/<=6 OpenFlow (funds exact / fee only / amount only / over), ExpandFlow (exact/short, by creator and stranger, end epoch left open / named explicitly / moved > 180 epochs out), flows ending with the next epoch, CloseFlow (creator/owner/stranger), staking, ticks, snapshots, claims; funded amount is measured from actual balance deltas and compared with the Flow query, the collector's fee, the creator's refund on close and the contract's reward balance in every state.",
    note="Bounded alphabets/depth; flows last 3-4 epochs.", tech="explicit-state model checking of the implementation (BFS) with balance-delta ghost ledger", ref="DESIGN.md §4 C12"),
 "C13": dict(
    text="(a) exhaustive grid of calculate_weight (hook): 9 durations x ~300 amounts: >= amount, monotone in amount and duration, matches the documented quadratic, rejects out-of-range durations. (b) explicit-state BFS (depth 5 quick / 7 thorough) over positions of amounts {1,2,3,1000} x 3 durations by 3 users, 1-2 flows with expansions, ticks, the permissionless snapshot placed anywhere, claims in any order: raw GLOBAL_WEIGHT == sum ADDRESS_WEIGHT, shares of the current epoch (share query) sum <= 1, second claim in an epoch pays nothing, claim == Rewards query immediately before, claim <= what the covered epochs can emit, payout == ledger increase.",
    note="20-epoch / 100-epoch histories are beyond the depth bound. One known finding (close before the epoch's snapshot) reported as KNOWN-FINDING.", tech="explicit-state model checking of the implementation (BFS) + exhaustive formula grid", ref="DESIGN.md §4 C13"),
 "C09": dict(
    text="Explicit-state BFS (depth 6 quick / 8 thorough) over the real fee_distributor + whale_lair + fee_collector (+ empty factories/router so ForwardFees runs): epoch creation (after a day / early), fee inflows {1,999,1e6}, bond/unbond/claim by 2-3 bonders, grace-period increases and attempted decreases, roots with grace 1..5, 0-3 existing epochs, growth rates {0, 1e-9, 7e-9 with per-address weights summing above the global weight, 1}: in every state claimed+available==total per epoch (claimed+rolled==total once expired), distributor balance >= sum available; each NewEpoch adds the expiring epoch's remainder to the new epoch exactly once and empties it; each claim pays exactly the ledgers' decrease == sum floor(total_e*share_e) recomputed from the bonding contract's Weight query, at most once per (address, epoch), never for epochs <= the epoch of first bonding, never from expired epochs.",
    note="Bounded alphabets/depth; single distribution asset (changing it mid-history is not explored).", tech="explicit-state model checking of the implementation (BFS) with ghost ledger", ref="DESIGN.md §4 C09"),
 "C20": dict(
    text="Explicit-state BFS (depth 9 quick / 13 thorough) over the real epoch-manager with 0-3 hook receiver contracts and over fee_distributor::NewEpoch in a full fee hub: clocks on whole seconds, with genesis at +0.75 s, a duration of 1 day + 1 ns, and genesis at time 0 (distributor); block time set to {genesis-duration-1ns, genesis-duration, genesis-1ns, genesis, boundary-1ns, boundary, boundary+1ns, boundary+2.5 durations}, creation attempts (also repeated in one block), hook add/remove by owner and stranger, duration changes: creation accepted iff the full duration elapsed (and not before genesis), id+1 and start+duration exactly, rejected attempts (errors and caught panics) change nothing, every registered receiver logs exactly one notification carrying the new epoch, stored epochs gap-free.",
    note="Durations 1 and 3 days; bounded depth.", tech="explicit-state model checking of the implementation (BFS) over time schedules", ref="DESIGN.md §4 C20"),
 "C10": dict(
    text="Exhaustive enumeration of the full configuration product (17280 configurations: fee state {0,<1000,>1000 on both sides, one side above and one below the threshold} of 2 real pairs x {0,500,5000} of 2 real vaults x take rate {inactive,0,1e-18,1%,50%,1-1e-18} x routes {both,none,A only,B only} x fault {none, routed pair paused, routed hop exceeds max spread (vault-held asset), same for the pool-only cw20 asset, none with a 1e21 collector balance}); every configuration also creates a third epoch after raising the grace period; each configuration is produced by real swaps/loans on a fully deployed hub (factories, router, collector, lair, distributor) and followed by one real NewEpoch: ledgers cleared, collector assets swapped-through-route-or-untouched, DAO == floor(rate*balance) and recorded per epoch, distributor delta == new epoch total - rollover, conservation of the distribution asset, ForwardFees only by the distributor, failing hop reverts everything.",
    note="One NewEpoch per configuration; protocol fee 1%, no burn; the collector does not enumerate three-asset pools (stated scope).", tech="exhaustive configuration/fault enumeration on the implementation (explicit-state, one transaction deep)", ref="DESIGN.md §4 C10"),
 "C03": dict(
    text="(a) exhaustive grid on the real stableswap compute_swap and LP-mint formula (hook): whole-token reserve magnitudes incl. 1:1..1:1e9 imbalances x offers {1 unit,1e-3,1,10%,100%,10x} x amp {1..1e6} x decimals {(6,6),(6,8),(8,6),(6,18),(18,6),(4,5)} x fee triples, compared with D and y solved independently (exact sign predicate of the polynomial) on decimal-normalised reserves: pool keeps the curve reserve up to 2+2*slope base units, proceeds <= ask reserve, proceeds monotone in the offer, fees floor(share*gross), mint <= invariant growth. (b) BFS histories (depth 3/4) of swap/provide/withdraw/collect/fee changes on the real deployed stableswap pair with decimals (6,6), (6,18), (6,8) [and (8,6) thorough], deposits also with the assets listed in reverse order: normalised D per LP never falls, mint bound, deposit->withdraw probe.",
    note="Oracles apply while each reserve >= one whole token (the property's precondition). LP-value dust: D known to +-2 base units, else 4+4*max dD/dx_i. Known finding: LP mint over raw amounts with unequal decimals.",
    tech="exhaustive input-grid enumeration + explicit-state model checking of the implementation (BFS)", ref="DESIGN.md §4 C03"),
 "C14": dict(
    text="In every state reached by explicit-state BFS (depth 2 quick / 3 thorough) over the real CP pair, stableswap pair, 3pool, router chain (A-B CP, B-C CP, C-D stableswap) and vault: Simulation{offer} is compared with an execution of the same swap on a copy of the state (attributes AND balance/ledger/supply deltas, native Swap and cw20 Send paths, all directions, offers {1,999,1e6,10% reserve,reserve}); SimulateSwapOperations is compared with the receiver's balance delta for all 12 one/two/three-hop routes; Share{amount} with the payout of withdrawing that amount.",
    note="Router probes assume the router holds none of the route's assets beforehand. Bounded depth/alphabets.", tech="explicit-state model checking of the implementation (BFS) with differential probes on state copies", ref="DESIGN.md §4 C14"),
 "C15": dict(
    text="(a) exhaustive grid of assert_max_spread over (offer,return,spread) boundary alphabet^3 x 10 max_spread values x 7 belief prices against the documented rule in exact rationals (1.3e6 points); (b) exhaustive grid of assert_slippage_tolerance (pair CP and stableswap arms, 3pool) over deposits x pools x tolerances, and real ProvideLiquidity transactions on deployed cp/stableswap/3pool pools x 6 deposit shapes x 6 tolerances x the order in which the message lists the assets (pools that owe several percent of a reserve in protocol fees; documented rule with a 4e-18 band on the cp outcome judged on the reported reserves; outcome and minted LP independent of the listing order); the (max_spread x belief) probe also runs on a 3pool with a cw20 asset in all six directions; (c) in BFS-reached states of the real CP and stableswap pairs: swaps with every (max_spread, belief) pair must succeed iff within the limit judged on the realised amounts; (d) router: minimum_receive in {D-1,D,D+1} around the simulated amount, receivers with balance {0,5,1e9}, all 1-3 hop routes: success iff delta >= m.",
    note="A one-unit / 1e-18 indifference band around each threshold; undefined 0/0 ratios are counted, not judged.", tech="exhaustive input-grid enumeration + explicit-state probes on the implementation", ref="DESIGN.md §4 C15"),
 "C16": dict(
    text="Fully enumerated privilege matrix on one deployment holding every contract of the hub: 42 privileged ExecuteMsg variants (incl. NextLoan naming the caller as source vault and CloseFlow by a label shared with another user's flow) (hand-classified table in the evidence) x 20 caller roles (owner, other owner, users, flow creator, a real proxy contract, each hub contract's address as sender) x {before, after transferring ownership of every contract}: an unauthorised caller must be rejected with full-state equality, the authorised caller with the same payload must succeed (so rejections are due to the caller), after the transfer the roles swap.",
    note="Classification table is hand-written from the property. Known finding: router AssertMinimumReceive has no sender check.", tech="exhaustive matrix enumeration on the implementation (explicit-state, one transaction deep)", ref="DESIGN.md §4 C16"),
 "C17": dict(
    text="Fully enumerated: {CP pair, stableswap pair, 3pool} x {with, without liquidity} x 2^3 toggle combinations x every entry path (direct ProvideLiquidity, via frontend_helper; LP Send{WithdrawLiquidity}, direct WithdrawLiquidity{}; native Swap, cw20 Send{Swap}, router 1-hop native / 1-hop cw20 Send / 2-hop first hop / 2-hop second hop) and {native, cw20 vault} x liquidity x 2^3 x {Deposit, Send{Withdraw}, Withdraw{}, FlashLoan direct, via vault_router}, plus code upgrades through the factories from older storage layouts (vault v1.1.3, pair v1.1.0, 3pool version bump) in all 8 switch states: disabled => rejected with full-state equality; enabled => same result and same balance deltas as the all-enabled control; disable->enable restores storage and behaviour; fresh pools/vaults start enabled; switches sent alone, as single-field partial updates (vault) or combined with every other optional field incl. an amp ramp (pools) are stored and enforced identically.",
    note="Default features; toggles set through the factories.", tech="exhaustive matrix enumeration with a differential oracle on the implementation", ref="DESIGN.md §4 C17"),
 "C18": dict(
    text="Explicit-state BFS (depth 3 quick / 4 thorough) over sequences of configuration writes on a deployment holding every contract, in three groups (pools; vaults; distributor+lair+collector), through every write path (factory create, factory-mediated update, owner update, direct instantiate by an arbitrary account) with values on / just inside / just outside every bound (10 fee triples incl. sums 1-1e-18, 1, 1+1e-18; amp {0,1,1e6,1e6+1}; grace {0,1,2,5,30,31}; duration {1d-1ns,1d,2d}; growth {0,.5,1,1+1e-18,2}; 0-3 bonding assets; take rate {0,1e-18,.5,1-1e-18,1,1+1e-18}; vault assets plain / token-factory denoms / cw20): every Config read back in every reached state satisfies all documented bounds, grace never decreases, rejected writes change nothing.",
    note="Amp ramps are covered by C04. In default features no vault over a token-factory denom is reachable (counter reported).", tech="explicit-state model checking of the implementation (BFS) over configuration-write sequences", ref="DESIGN.md §4 C18"),
 "C19": dict(
    text="Explicit-state BFS over create/remove/re-create sequences on the real pool factory (every ordered pair and every permutation of 1-2 triples of a 3-4 asset universe of native and cw20 assets, depth 4/5), vault and incentive factories (depth 6/8) and router routes over a chain of real pairs incl. removing and re-creating a hop's pair (depth 4/5): registry <-> model bijection on unordered asset sets, creation in any order on an existing set rejected, point queries in every order == the child's own report (address, assets, decimals, type, LP token), removed entries absent from point and list queries, re-creation gets a fresh address, pagination for every limit 1..n+1 concatenates to exactly the full listing, routes stored only if every hop is registered, executed routes only touch currently registered pairs.",
    note="Asset universe avoids concatenated-key collisions (stated exclusion).", tech="explicit-state model checking of the implementation (BFS) against a reference registry", ref="DESIGN.md §4 C19"),
}
NOT_BUILT = "check not built yet in this round (planned, see DESIGN.md)"
props = [json.loads(l) for l in open('/verif/properties.jsonl')]
checks = []
na = []
for p in props:
    i = p["id"]
    if i in CHECKS:
        c = CHECKS[i]
        checks.append({
            "property_id": i,
            "quick_cmd": f"/verif/run {i} quick",
            "thorough_cmd": f"/verif/run {i} thorough",
            "evidence_file": f"/verif/evidence/{i}.json",
            "replay_cmd_template": "/verif/run replay {path}",
            "engine": "wwmc",
            "level_claimed": {"category": "model_checking", "text": c["text"], "design_ref": c["ref"]},
            "level_note": c["note"],
            "technique": c["tech"],
        })
    else:
        na.append({"property_id": i, "reason": NOT_BUILT})
m = {
 "version": 1,
 "setup_cmd": "cd /verif/mc && CARGO_NET_OFFLINE=true cargo build --offline --release",
 "hooks": {
   "guard": "wwcore_verif",
   "enable": "RUSTFLAGS='--cfg wwcore_verif' (set in /verif/mc/.cargo/config.toml [build] rustflags)",
   "baseline_off_cmd": BASE["cmd"],
   "source_commits": ["b4ee2af"],
   "add_only": True,
 },
 "engines": [{"name": "wwmc", "path": "/verif/mc", "serves_properties": sorted(CHECKS.keys()),
              "kind_free_text": "explicit-state model checker over the real CosmWasm contracts (cw-multi-test with snapshot-able storage); level-synchronous parallel BFS with full-state fingerprints, step oracles + invariants, independent 1024-bit reference arithmetic; exhaustive input grids for pure formulas"}],
 "checks": checks,
 "not_applicable": na,
 "notes": "All checks rebuild from /repo's working tree (path dependencies + [patch.crates-io] white-whale-std -> /repo/packages/white-whale-std). Exit 0 held / 1 VIOLATION / 2 machinery error.",
}
json.dump(m, open('/verif/MANIFEST.json', 'w'), indent=1)
print("checks:", len(checks), "not_applicable:", len(na))
