//! Bonding (whale_lair) scenario wired to the real fee_distributor and fee_collector.
//! Serves C08 (bonding conservation). The deployment helper is shared with C09/C10/C18/C20.

use std::collections::BTreeMap;

use cosmwasm_std::{Decimal, Uint128, Uint64};
use serde::{Deserialize, Serialize};
use white_whale_std::epoch_manager::epoch_manager::EpochConfig;
use white_whale_std::pool_network::asset::AssetInfo;
use white_whale_std::whale_lair::{BondedResponse, ExecuteMsg as LairExec, QueryMsg as LairQuery, UnbondingResponse, WithdrawableResponse};

use crate::deploy::*;
use crate::engine::{Cx, Scenario};
use crate::world::{coin, World, GENESIS_TIME_NS};

pub const BD: [&str; 2] = ["uwhale", "ubwhale"];
pub const FOREIGN: &str = "uforeign";
pub const DAY_NS: u64 = 86_400_000_000_000;

#[derive(Clone, Debug)]
pub struct BondHub {
    pub collector: String,
    pub lair: String,
    pub distributor: String,
}

pub fn deploy_bonding(w: &mut World, unbonding_period_ns: u64, growth_rate: Decimal, grace: u64, genesis_ns: u64, distribution: AssetInfo) -> BondHub {
    let collector = w
        .instantiate(w.codes.fee_collector, OWNER, &white_whale_std::fee_collector::InstantiateMsg {}, &[], "fee_collector", Some(OWNER))
        .expect("collector");
    let lair = w
        .instantiate(
            w.codes.whale_lair,
            OWNER,
            &white_whale_std::whale_lair::InstantiateMsg { unbonding_period: Uint64::new(unbonding_period_ns), growth_rate, bonding_assets: vec![native(BD[0]), native(BD[1])] },
            &[],
            "whale_lair",
            Some(OWNER),
        )
        .expect("lair");
    let distributor = w
        .instantiate(
            w.codes.fee_distributor,
            OWNER,
            &white_whale_std::fee_distributor::InstantiateMsg {
                bonding_contract_addr: lair.clone(),
                fee_collector_addr: collector.clone(),
                grace_period: Uint64::new(grace),
                epoch_config: EpochConfig { duration: Uint64::new(DAY_NS), genesis_epoch: Uint64::new(genesis_ns) },
                distribution_asset: distribution,
            },
            &[],
            "fee_distributor",
            Some(OWNER),
        )
        .expect("distributor");
    w.exec(OWNER, &lair, &LairExec::UpdateConfig { owner: None, unbonding_period: None, growth_rate: None, fee_distributor_addr: Some(distributor.clone()) }, &[])
        .expect("lair config");
    BondHub { collector, lair, distributor }
}

pub struct LairScn {
    pub users: Vec<String>,
    pub period_ns: u64,
}

#[derive(Clone, Debug, Hash, Default)]
pub struct LG {
    pub bonded: BTreeMap<(String, String), u128>,
    /// (user, denom, timestamp) -> amount   (one entry per unbond call; several may share a key instant)
    pub unbonding: Vec<(String, String, u64, u128)>,
}

#[derive(Clone, Debug, Serialize, Deserialize)]
pub enum LAct {
    Bond { user: String, denom: String, amount: u64 },
    BondBad { user: String, kind: String },
    Unbond { user: String, denom: String, part: String },
    Withdraw { user: String, denom: String },
    Advance { kind: String },
}

pub fn lair_unbonding_total(w: &World, lair: &str, user: &str, denom: &str) -> Result<(u128, usize), String> {
    let mut total = 0u128;
    let mut n = 0usize;
    let mut start: Option<u64> = None;
    loop {
        let r: UnbondingResponse = w.query(lair, &LairQuery::Unbonding { address: user.to_string(), denom: denom.to_string(), start_after: start, limit: Some(30) })?;
        if r.unbonding_requests.is_empty() {
            break;
        }
        total += r.total_amount.u128();
        n += r.unbonding_requests.len();
        start = Some(r.unbonding_requests.last().unwrap().timestamp.nanos());
        if r.unbonding_requests.len() < 30 {
            break;
        }
    }
    Ok((total, n))
}

impl Scenario for LairScn {
    type Action = LAct;
    type Ghost = LG;
    type Handles = BondHub;

    fn name(&self) -> String {
        "lair".into()
    }
    fn root_labels(&self) -> Vec<String> {
        vec!["fresh".into(), "alice-bonded-and-unbonding".into(), "18-decimals-scale: bob bonded 3e19, carol 3e19+1".into()]
    }
    fn setup(&self, root: usize, w: &mut World) -> (BondHub, LG) {
        let h = deploy_bonding(w, self.period_ns, Decimal::zero(), 2, GENESIS_TIME_NS + 10 * DAY_NS, native(BD[0]));
        for u in self.users.iter() {
            for d in BD.iter().chain([FOREIGN].iter()) {
                w.mint_native(u, 1_000_000, d);
            }
        }
        let mut g = LG::default();
        if root == 1 {
            let u = self.users[0].clone();
            w.exec(&u, &h.lair, &LairExec::Bond { asset: asset(&native(BD[0]), 1000) }, &[coin(1000, BD[0])]).expect("root bond");
            g.bonded.insert((u.clone(), BD[0].to_string()), 1000);
            w.advance(5, 1);
            w.exec(&u, &h.lair, &LairExec::Unbond { asset: asset(&native(BD[0]), 300) }, &[]).expect("root unbond");
            *g.bonded.get_mut(&(u.clone(), BD[0].to_string())).unwrap() -= 300;
            g.unbonding.push((u, BD[0].to_string(), w.time_ns(), 300));
            w.advance(7, 1);
        }
        if root == 2 {
            // amounts above 2^64 base units (an 18-decimals asset): two large bonders and alice's usual small amounts
            for (u, amt) in [(self.users[1].clone(), 30_000_000_000_000_000_000u128), (self.users[2].clone(), 30_000_000_000_000_000_001u128)] {
                w.mint_native(&u, amt, BD[0]);
                w.exec(&u, &h.lair, &LairExec::Bond { asset: asset(&native(BD[0]), amt) }, &[coin(amt, BD[0])]).expect("large root bond");
                g.bonded.insert((u.clone(), BD[0].to_string()), amt);
            }
            w.advance(5, 1);
        }
        (h, g)
    }

    fn actions(&self, _w: &World, _h: &BondHub, g: &LG, _depth: usize) -> Vec<LAct> {
        let mut v = vec![];
        for (ui, u) in self.users.iter().enumerate() {
            for (di, d) in BD.iter().enumerate() {
                let amts: &[u64] = if ui == 0 && di == 0 { &[1, 7, 1000] } else { &[7] };
                for a in amts {
                    v.push(LAct::Bond { user: u.clone(), denom: d.to_string(), amount: *a });
                }
                let bonded = g.bonded.get(&(u.clone(), d.to_string())).cloned().unwrap_or(0);
                if bonded > 0 {
                    let parts: &[&str] = if ui == 0 { &["one", "half", "all", "all+1"] } else { &["half", "all"] };
                    for p in parts {
                        if *p == "half" && bonded < 2 {
                            continue;
                        }
                        v.push(LAct::Unbond { user: u.clone(), denom: d.to_string(), part: p.to_string() });
                    }
                }
                if g.unbonding.iter().any(|x| &x.0 == u && x.1 == *d) || (ui == 0 && di == 0) {
                    v.push(LAct::Withdraw { user: u.clone(), denom: d.to_string() });
                }
            }
        }
        let u0 = self.users[0].clone();
        for k in ["foreign_denom", "amount_mismatch", "cw20_asset", "two_coins", "two_coins_asset_first", "other_whitelisted_coin", "other_whitelisted_coin_reversed", "asset_plus_foreign_coin", "no_funds", "unbond_nothing", "unbond_zero", "withdraw_foreign"] {
            v.push(LAct::BondBad { user: u0.clone(), kind: k.to_string() });
        }
        for k in ["1ns", "period-1ns", "period", "1day"] {
            v.push(LAct::Advance { kind: k.to_string() });
        }
        v
    }

    fn step(&self, w: &mut World, h: &BondHub, g: &mut LG, a: &LAct, cx: &mut Cx) {
        let all_bal = |w: &World| -> Vec<u128> {
            let mut v = vec![];
            for u in self.users.iter() {
                for d in BD.iter().chain([FOREIGN].iter()) {
                    v.push(w.native_balance(u, d));
                }
            }
            v
        };
        match a {
            LAct::Bond { user, denom, amount } => {
                let r = w.exec(user, &h.lair, &LairExec::Bond { asset: asset(&native(denom), *amount as u128) }, &[coin(*amount as u128, denom)]);
                cx.check("bond.whitelisted_native_with_matching_funds_is_accepted", r.is_ok(), || format!("bond of {} {} by {} rejected: {:?}", amount, denom, user, r.as_ref().err().map(|e| e.msg().to_string())));
                if r.is_ok() {
                    cx.count("bond:ok");
                    *g.bonded.entry((user.clone(), denom.clone())).or_insert(0) += *amount as u128;
                }
            }
            LAct::BondBad { user, kind } => {
                let before = all_bal(w);
                let r = match kind.as_str() {
                    "foreign_denom" => w.exec(user, &h.lair, &LairExec::Bond { asset: asset(&native(FOREIGN), 5) }, &[coin(5, FOREIGN)]),
                    "amount_mismatch" => w.exec(user, &h.lair, &LairExec::Bond { asset: asset(&native(BD[0]), 5) }, &[coin(4, BD[0])]),
                    "cw20_asset" => w.exec(user, &h.lair, &LairExec::Bond { asset: asset(&token("contract0"), 5) }, &[coin(5, BD[0])]),
                    "two_coins" => w.exec(user, &h.lair, &LairExec::Bond { asset: asset(&native(BD[0]), 5) }, &[coin(5, BD[1]), coin(5, BD[0])]),
                    "two_coins_asset_first" => w.exec(user, &h.lair, &LairExec::Bond { asset: asset(&native(BD[0]), 5) }, &[coin(5, BD[0]), coin(5, BD[1])]),
                    // declared in one whitelisted denom, paid in the other (both ways round)
                    "other_whitelisted_coin" => w.exec(user, &h.lair, &LairExec::Bond { asset: asset(&native(BD[0]), 5) }, &[coin(5, BD[1])]),
                    "other_whitelisted_coin_reversed" => w.exec(user, &h.lair, &LairExec::Bond { asset: asset(&native(BD[1]), 5) }, &[coin(5, BD[0])]),
                    "asset_plus_foreign_coin" => w.exec(user, &h.lair, &LairExec::Bond { asset: asset(&native(BD[0]), 5) }, &[coin(5, BD[0]), coin(3, FOREIGN)]),
                    "no_funds" => w.exec(user, &h.lair, &LairExec::Bond { asset: asset(&native(BD[0]), 5) }, &[]),
                    "unbond_nothing" => w.exec(MALLORY, &h.lair, &LairExec::Unbond { asset: asset(&native(BD[0]), 5) }, &[]),
                    "unbond_zero" => w.exec(user, &h.lair, &LairExec::Unbond { asset: asset(&native(BD[0]), 0) }, &[]),
                    _ => w.exec(user, &h.lair, &LairExec::Withdraw { denom: FOREIGN.to_string() }, &[]),
                };
                cx.count("bad:attempt");
                cx.check("bond.only_whitelisted_native_with_matching_funds", r.is_err() && all_bal(w) == before, || format!("invalid call '{}' was accepted or moved funds", kind));
            }
            LAct::Unbond { user, denom, part } => {
                let bonded = g.bonded.get(&(user.clone(), denom.clone())).cloned().unwrap_or(0);
                let amt = match part.as_str() {
                    "one" => 1,
                    "half" => bonded / 2,
                    "all" => bonded,
                    _ => bonded + 1,
                };
                let before = all_bal(w);
                let r = w.exec(user, &h.lair, &LairExec::Unbond { asset: asset(&native(denom), amt) }, &[]);
                let should = amt > 0 && amt <= bonded;
                cx.check("unbond.accepted_iff_covered_by_bond", r.is_ok() == should, || format!("unbond {} of {} bonded {}: accepted={} {:?}", amt, denom, bonded, r.is_ok(), r.as_ref().err().map(|e| e.msg().to_string())));
                cx.check("unbond.moves_no_funds", all_bal(w) == before, || "unbond moved funds".to_string());
                if r.is_ok() {
                    cx.count("unbond:ok");
                    let now = w.time_ns();
                    if g.unbonding.iter().any(|x| &x.0 == user && &x.1 == denom && x.2 == now) {
                        cx.count("unbond:same_block_same_user_denom");
                    }
                    let e = g.bonded.get_mut(&(user.clone(), denom.clone())).unwrap();
                    *e -= amt;
                    if *e == 0 {
                        g.bonded.remove(&(user.clone(), denom.clone()));
                    }
                    g.unbonding.push((user.clone(), denom.clone(), now, amt));
                    g.unbonding.sort();
                }
            }
            LAct::Withdraw { user, denom } => {
                let now = w.time_ns();
                let matured: u128 = g.unbonding.iter().filter(|x| &x.0 == user && &x.1 == denom && now - self.period_ns >= x.2).map(|x| x.3).sum();
                let q: Result<WithdrawableResponse, String> = w.query(&h.lair, &LairQuery::Withdrawable { address: user.clone(), denom: denom.clone() });
                cx.check("withdrawable_query.equals_matured_unbondings", q.as_ref().map(|x| x.withdrawable_amount.u128()).ok() == Some(matured), || {
                    format!("Withdrawable({},{}) = {:?} but matured unbondings sum to {}", user, denom, q, matured)
                });
                let before = all_bal(w);
                let ub = w.native_balance(user, denom);
                let r = w.exec(user, &h.lair, &LairExec::Withdraw { denom: denom.clone() }, &[]);
                let after = all_bal(w);
                match &r {
                    Ok(_) => {
                        cx.count("withdraw:ok");
                        let got = w.native_balance(user, denom) - ub;
                        cx.check("withdraw.pays_matured_in_full_exactly_once", got == matured, || format!("withdraw by {} of {}: paid {} but matured unbondings sum to {}", user, denom, got, matured));
                        // nobody else's balance changed
                        let mut changed = 0;
                        for i in 0..before.len() {
                            if before[i] != after[i] {
                                changed += 1;
                            }
                        }
                        cx.check("withdraw.only_owner_is_paid", changed <= 1, || "more than one balance changed on withdraw".to_string());
                        g.unbonding.retain(|x| !(&x.0 == user && &x.1 == denom && now - self.period_ns >= x.2));
                    }
                    Err(e) => {
                        cx.count("withdraw:rejected");
                        cx.check("withdraw.matured_unbonding_is_withdrawable", matured == 0, || format!("withdraw by {} of {} rejected ({}) although {} has matured", user, denom, e.msg(), matured));
                        cx.check("withdraw.rejected_moves_nothing", before == after, || "rejected withdraw moved funds".to_string());
                    }
                }
            }
            LAct::Advance { kind } => {
                let d = match kind.as_str() {
                    "1ns" => 1,
                    "period-1ns" => self.period_ns - 1,
                    "period" => self.period_ns,
                    _ => DAY_NS,
                };
                w.advance(d, 1);
                cx.count("advance");
            }
        }
    }

    fn invariants(&self, w: &mut World, h: &BondHub, g: &LG, cx: &mut Cx) {
        let total: Result<BondedResponse, String> = w.query(&h.lair, &LairQuery::TotalBonded {});
        let total = match total {
            Ok(t) => t,
            Err(e) => {
                cx.violate("total_bonded_query.succeeds", "", e);
                return;
            }
        };
        let tb = |d: &str| -> u128 {
            total
                .bonded_assets
                .iter()
                .filter(|a| matches!(&a.info, AssetInfo::NativeToken { denom } if denom == d))
                .map(|a| a.amount.u128())
                .sum()
        };
        let mut sum_users_total = 0u128;
        for d in BD.iter() {
            let mut sum_bonded = 0u128;
            let mut sum_unbonding = 0u128;
            for u in self.users.iter() {
                let b: BondedResponse = w.query(&h.lair, &LairQuery::Bonded { address: u.clone() }).unwrap_or(BondedResponse { total_bonded: Uint128::MAX, bonded_assets: vec![], first_bonded_epoch_id: Uint64::zero() });
                let ub: u128 = b.bonded_assets.iter().filter(|a| matches!(&a.info, AssetInfo::NativeToken { denom } if denom == d)).map(|a| a.amount.u128()).sum();
                let model = g.bonded.get(&(u.clone(), d.to_string())).cloned().unwrap_or(0);
                cx.check("bonded_query.equals_model", ub == model, || format!("Bonded({}) reports {} {} but bond/unbond history gives {}", u, ub, d, model));
                sum_bonded += ub;
                let (un, _) = lair_unbonding_total(w, &h.lair, u, d).unwrap_or((u128::MAX, 0));
                let model_un: u128 = g.unbonding.iter().filter(|x| &x.0 == u && x.1 == *d).map(|x| x.3).sum();
                cx.check("unbonding_query.equals_model", un == model_un, || format!("Unbonding({},{}) totals {} but unbond/withdraw history gives {}", u, d, un, model_un));
                sum_unbonding += un;
            }
            sum_users_total += sum_bonded;
            let bal = w.native_balance(&h.lair, d);
            cx.check("conservation.balance_is_bonded_plus_unbonding", bal == tb(d).saturating_add(sum_unbonding), || {
                format!("{}: lair balance {} != total bonded {} + pending unbondings {}", d, bal, tb(d), sum_unbonding)
            });
            cx.check("conservation.total_bonded_is_sum_of_users", tb(d) == sum_bonded, || format!("{}: TotalBonded {} != sum of users' bonds {}", d, tb(d), sum_bonded));
        }
        cx.check("conservation.total_amount_is_sum_of_users", total.total_bonded.u128() == sum_users_total, || format!("TotalBonded.total {} != {}", total.total_bonded, sum_users_total));
        let foreign = w.native_balance(&h.lair, FOREIGN);
        cx.check("bond.only_whitelisted_native_with_matching_funds", foreign == 0, || format!("lair holds {} of a non-whitelisted denom", foreign));
    }
}
