//! Independent big-integer arithmetic for the oracles (the `uint` crate; the subject's
//! Uint256/Uint512/Decimal256 are built on `bnum`, so no big-number code is shared).
#![allow(clippy::assign_op_pattern, clippy::manual_div_ceil)]

use uint::construct_uint;

construct_uint! {
    pub struct U1024(16);
}

pub fn b(x: u128) -> U1024 {
    U1024::from(x)
}
pub fn pow10(n: u32) -> U1024 {
    let mut r = U1024::one();
    for _ in 0..n {
        r = r * U1024::from(10u64);
    }
    r
}
pub fn e18() -> U1024 {
    U1024::from(1_000_000_000_000_000_000u128)
}
pub fn u128_max() -> U1024 {
    U1024::from(u128::MAX)
}
pub fn fits128(x: &U1024) -> bool {
    *x <= u128_max()
}
/// floor(a*b/c)
pub fn muldiv(a: U1024, b_: U1024, c: U1024) -> U1024 {
    a * b_ / c
}
/// floor(sqrt(x)) by bisection on the defining inequality
pub fn isqrt(x: U1024) -> U1024 {
    if x.is_zero() {
        return x;
    }
    let bits = x.bits();
    let mut lo = U1024::zero();
    let mut hi = U1024::one() << ((bits + 1) / 2 + 1);
    // invariant: lo^2 <= x < hi^2
    while hi - lo > U1024::one() {
        let mid = (lo + hi) >> 1;
        if mid * mid <= x {
            lo = mid;
        } else {
            hi = mid;
        }
    }
    lo
}
pub fn to_u128(x: &U1024) -> Option<u128> {
    if fits128(x) {
        Some(x.low_u128())
    } else {
        None
    }
}
