//! Two-asset pool scenario (constant product and stableswap) over the real factory, pair and
//! cw20 contracts. Serves C01 (CP histories), C03 (stableswap histories) and, through the
//! probe flags, C14 (simulation == execution) and C15 (realised slippage bounds).

use cosmwasm_std::Decimal;
use serde::{Deserialize, Serialize};
use white_whale_std::pool_network::asset::{AssetInfo, PairType};
use white_whale_std::pool_network::pair::{QueryMsg as PairQuery, SimulationResponse};

use crate::big::{b, isqrt, U1024};
use crate::deploy::*;
use crate::engine::{Cx, Scenario};
use crate::refmath;
use crate::world::{attr_u128, World};

#[derive(Clone, Copy, Debug, PartialEq, Eq, Serialize, Deserialize)]
pub enum Kinds {
    NN,
    NC,
    CC,
    /// two token-factory style native denoms from different creators with the SAME subdenom
    /// (factory/creatora/uabc, factory/creatorb/uabc): identifiers derived from a suffix collide
    FF,
}

#[derive(Clone, Debug)]
pub struct PairRoot {
    pub label: String,
    pub kinds: Kinds,
    pub decimals: [u8; 2],
    pub fees: Fee3,
    pub first: [u128; 2],
    /// swap once in each direction after the first deposit (pending protocol fees != 0)
    pub pre_swaps: bool,
}

#[derive(Clone, Copy, Debug, PartialEq, Eq)]
pub enum Probe {
    None,
    /// C14: in every state, Simulation == execution (on a copy)
    SimEqExec,
    /// C15: realised slippage bound on swaps with (max_spread, belief) alphabet
    Spread,
}

pub struct PairScn {
    pub property: String,
    pub stable_amp: Option<u64>,
    pub roots: Vec<PairRoot>,
    pub fee_alphabet: Vec<Fee3>,
    pub probe: Probe,
    /// smaller action alphabet (used for deeper runs)
    pub reduced: bool,
}

#[derive(Clone, Debug, Serialize, Deserialize, PartialEq, Eq)]
pub enum Shape {
    Prop1pct,
    Prop100pct,
    Imbalanced,
    OneOne,
    TenX,
    /// heavily one-sided: (R0, 1)
    Skew,
    /// absolute amounts (first deposits into an empty pool)
    Abs([u128; 2]),
}

#[derive(Clone, Debug, Serialize, Deserialize)]
pub enum Act {
    Provide {
        user: String,
        shape: Shape,
        receiver: Option<String>,
        /// the message lists the assets in the reverse of the pool's order
        #[serde(default)]
        reversed: bool,
    },
    Withdraw { user: String, part: String },
    /// withdrawal attempts that do not go through the LP token's Send hook: the direct
    /// WithdrawLiquidity{} message with an unrelated coin attached, or a forged Receive
    BadWithdraw { user: String, kind: String },
    /// a deposit whose message mislabels the kind of an asset (a native denom presented as a cw20 contract address,
    /// with no funds attached for it)
    BadProvide { user: String, kind: String },
    /// a swap declaring more of a native offer asset than is attached
    BadSwap { user: String, dir: u8 },
    /// somebody bank-sends the pool coins of a look-alike denom (asset `idx`'s denom in upper case)
    SendLookalike { idx: u8 },
    /// a swap offering a bank coin whose denom is spelled exactly like the contract address of the pool's
    /// cw20 asset `idx` (attached in full): it is not an asset of the pool
    SwapAddrCoin { user: String, idx: u8 },
    Swap { user: String, dir: u8, amount: u128, loose: bool },
    Collect { user: String },
    /// through fee_collector::CollectFees{Contracts}
    CollectVia { user: String },
    SetFees { idx: usize },
}

#[derive(Clone, Debug)]
pub struct H {
    pub hub: PoolHub,
    pub pair: PairH,
    pub root: PairRoot,
}

#[derive(Clone, Debug, Hash, Default)]
pub struct G {
    /// LP balance held by the pair itself (locked minimum liquidity) — must never decrease
    pub locked: u128,
    /// C07 reference ledger: protocol / burn fees charged so far per asset (sums of the
    /// individual charges reported by accepted swaps) and the token supplies at the root
    pub charged: [u128; 2],
    pub burned: [u128; 2],
    pub supply0: [u128; 2],
}

pub const DN0: &str = "uwhale";
pub const DN1: &str = "uluna";
const BIG_FUND: u128 = 1u128 << 122;

pub fn loose_belief() -> Option<Decimal> {
    // belief price 1e18: expected return = offer * 1e-18 → the spread assertion never trips
    Some(Decimal::new(cosmwasm_std::Uint128::new(10u128.pow(36))))
}

impl PairScn {
    /// the LP-value / pro-rata / min-liquidity oracles belong to C01 (CP) and C03 (stableswap)
    pub fn lp_oracles(&self) -> bool {
        self.property == "C01" || self.property == "C03"
    }

    /// keep only the violations of oracle clauses that belong to the property being checked
    fn keep_own(&self, cx: &mut Cx) {
        let prefixes: &[&str] = match self.property.as_str() {
            "C01" | "C03" => return,
            "C07" => &["collect.", "ledger.", "burn."],
            "C14" => &["sim_eq_exec."],
            "C15" => &["spread."],
            _ => &[],
        };
        cx.violations.retain(|v| prefixes.iter().any(|p| v.oracle.starts_with(p)));
    }

    fn pair_type(&self) -> PairType {
        match self.stable_amp {
            Some(a) => PairType::StableSwap { amp: a },
            None => PairType::ConstantProduct,
        }
    }

    pub fn deploy(&self, r: &PairRoot, w: &mut World) -> H {
        const FD0: &str = "factory/creatora/uabc";
        const FD1: &str = "factory/creatorb/uabc";
        let hub = if r.kinds == Kinds::FF { deploy_pool_hub(w, &[(FD0, r.decimals[0]), (FD1, r.decimals[1])]) } else { deploy_pool_hub(w, &[(DN0, r.decimals[0]), (DN1, r.decimals[1])]) };
        let a0 = match r.kinds {
            Kinds::NN | Kinds::NC => native(DN0),
            Kinds::CC => token(&w.new_cw20("taa", r.decimals[0], &[], OWNER)),
            Kinds::FF => native(FD0),
        };
        let a1 = match r.kinds {
            Kinds::NN => native(DN1),
            Kinds::NC | Kinds::CC => token(&w.new_cw20("tbb", r.decimals[1], &[], OWNER)),
            Kinds::FF => native(FD1),
        };
        for u in USERS.iter().chain([MALLORY].iter()) {
            fund(w, &a0, u, BIG_FUND);
            fund(w, &a1, u, BIG_FUND);
        }
        for a in [&a0, &a1] {
            if let AssetInfo::NativeToken { denom } = a {
                w.mint_native(MALLORY, 1_000_000_000, &denom.to_uppercase());
            }
        }
        // bank coins spelled like the address of a cw20 pool asset
        for a in [&a0, &a1] {
            if let AssetInfo::Token { contract_addr } = a {
                w.mint_native(MALLORY, BIG_FUND, contract_addr);
            }
        }
        let pair = create_pair(w, &hub, [a0, a1], r.fees.pool(), self.pair_type()).expect("create pair");
        H { hub, pair, root: r.clone() }
    }
}

pub fn reserves(w: &World, h: &H) -> Option<([u128; 2], u128)> {
    pair_pool(w, &h.pair.addr).ok()
}

fn shape_amounts(shape: &Shape, r: [u128; 2]) -> [u128; 2] {
    let m = |x: u128| x.max(1);
    match shape {
        Shape::Prop1pct => [m(r[0] / 100), m(r[1] / 100)],
        Shape::Prop100pct => [m(r[0]), m(r[1])],
        Shape::Imbalanced => [m(r[0] / 1000 + 1), m(r[1])],
        Shape::OneOne => [1, 1],
        Shape::TenX => [m(r[0]).saturating_mul(10), m(r[1]).saturating_mul(10)],
        Shape::Skew => [m(r[0]), 1],
        Shape::Abs(d) => *d,
    }
}

impl Scenario for PairScn {
    type Action = Act;
    type Ghost = G;
    type Handles = H;

    fn name(&self) -> String {
        format!(
            "pair-{}{}",
            match self.stable_amp {
                Some(a) => format!("stable{a}"),
                None => "cp".into(),
            },
            match self.probe {
                Probe::None => "",
                Probe::SimEqExec => "-sim",
                Probe::Spread => "-spread",
            }
        )
    }
    fn root_labels(&self) -> Vec<String> {
        self.roots.iter().map(|r| r.label.clone()).collect()
    }

    fn setup(&self, root: usize, w: &mut World) -> (H, G) {
        let r = &self.roots[root];
        let h = self.deploy(r, w);
        if r.first != [0, 0] {
            pair_provide(w, &h.pair, ALICE, r.first, None, None).unwrap_or_else(|e| panic!("root deposit failed: {:?} {:?}", r, e));
            if r.pre_swaps {
                let (res, _) = reserves(w, &h).unwrap();
                // (not fatal when rejected: the root is then explored without pending fees, and the vacuity counters
                // of the check notice if no root has any)
                let _ = pair_swap(w, &h.pair.addr, BOB, &h.pair.assets[0], (res[0] / 50).max(1), loose_belief(), None, None);
                let _ = pair_swap(w, &h.pair.addr, CAROL, &h.pair.assets[1], (res[1] / 40).max(1), loose_belief(), None, None);
            }
        }
        let locked = w.cw20_balance(&h.pair.lp, &h.pair.addr);
        let charged = pair_fees(w, &h.pair.addr, true).unwrap();
        let burned = pair_burned(w, &h.pair.addr).unwrap();
        let supply0 = [info_supply(w, &h.pair.assets[0]) + burned[0], info_supply(w, &h.pair.assets[1]) + burned[1]];
        (h, G { locked, charged, burned, supply0 })
    }

    fn actions(&self, w: &World, h: &H, _g: &G, _depth: usize) -> Vec<Act> {
        let mut v = vec![];
        let (res, supply) = match reserves(w, h) {
            Some(x) => x,
            None => return v,
        };
        if self.property == "C07" {
            // swaps sized so that one operation's protocol fee lands below / at / above the
            // collection threshold (1000) for the root's fee share, both directions
            let pshare = h.root.fees.protocol.max(1);
            let mut amts: Vec<u128> = vec![1, 999];
            for target in [1u128, 500, 999, 1000, 1001, 1_000_000] {
                // offer such that gross*share ~ target (reserves are large in C07 roots)
                let a = (b(target) * b(ONE18) / b(pshare)).low_u128();
                amts.push(a.max(2));
                amts.push(a.max(2) + a / 50 + 1);
            }
            // (pools on the scale of 18-decimals assets: a swap of a tenth of the reserve, whose charges exceed 2^64)
            if res[0].min(res[1]) >= 10u128.pow(20) {
                amts.push(res[0].min(res[1]) / 10);
            }
            amts.sort();
            amts.dedup();
            for dir in 0..2u8 {
                for a in &amts {
                    if *a < res[dir as usize].saturating_mul(50) {
                        v.push(Act::Swap { user: ALICE.to_string(), dir, amount: *a, loose: true });
                    }
                }
            }
            v.push(Act::Collect { user: MALLORY.to_string() });
            v.push(Act::CollectVia { user: BOB.to_string() });
            v.push(Act::Provide { user: BOB.to_string(), shape: Shape::Prop1pct, receiver: None, reversed: false });
            if w.cw20_balance(&h.pair.lp, ALICE) > 0 {
                v.push(Act::Withdraw { user: ALICE.to_string(), part: "half".to_string() });
            }
            for i in 0..self.fee_alphabet.len() {
                v.push(Act::SetFees { idx: i });
            }
            let _ = supply;
            return v;
        }
        let users: &[&str] = if self.reduced { &USERS[..2] } else { &USERS[..] };
        // swaps
        for (ui, u) in users.iter().enumerate() {
            for dir in 0..2u8 {
                let r = res[dir as usize];
                let mut amts: Vec<u128> = if self.reduced {
                    vec![1, (r / 100).max(2), r.max(3)]
                } else {
                    vec![1, 999, (r / 100).max(2), r.max(3), r.saturating_mul(100).max(4)]
                };
                amts.sort();
                amts.dedup();
                if supply == 0 {
                    amts.truncate(1);
                }
                // only the first user explores the full amount alphabet; the others one amount
                if ui > 0 {
                    amts = vec![(r / 100).max(2)];
                }
                for a in amts {
                    v.push(Act::Swap { user: u.to_string(), dir, amount: a, loose: true });
                }
            }
            if ui == 0 && supply > 0 {
                v.push(Act::Swap { user: u.to_string(), dir: 0, amount: (res[0] / 200).max(2), loose: false });
            }
        }
        // deposits
        for (ui, u) in users.iter().enumerate() {
            let shapes: Vec<Shape> = if supply == 0 {
                if ui == 0 {
                    vec![Shape::OneOne, Shape::Abs([1000, 1000]), Shape::Abs([1001, 1001]), Shape::Abs([1_000_000, 4_000_000]), Shape::Abs([3, 400_000])]
                } else {
                    vec![Shape::Abs([1001, 1001])]
                }
            } else if ui == 0 && !self.reduced {
                vec![Shape::Prop1pct, Shape::Prop100pct, Shape::Imbalanced, Shape::OneOne, Shape::TenX, Shape::Skew]
            } else if ui == 0 {
                vec![Shape::Prop1pct, Shape::Imbalanced, Shape::OneOne]
            } else {
                vec![Shape::Prop1pct, Shape::Imbalanced]
            };
            for s in shapes {
                // the first user also sends the lopsided shapes with the assets listed in reverse order
                if ui == 0 && supply > 0 && matches!(s, Shape::Imbalanced | Shape::Skew) {
                    v.push(Act::Provide { user: u.to_string(), shape: s.clone(), receiver: None, reversed: true });
                }
                v.push(Act::Provide { user: u.to_string(), shape: s, receiver: None, reversed: false });
            }
        }
        if supply > 0 && !self.reduced {
            v.push(Act::Provide { user: BOB.to_string(), shape: Shape::Prop1pct, receiver: Some(CAROL.to_string()), reversed: false });
        }
        // withdrawals
        for u in users.iter() {
            let bal = w.cw20_balance(&h.pair.lp, u);
            if bal > 0 {
                for part in ["all", "half", "one"] {
                    if part == "half" && bal < 2 {
                        continue;
                    }
                    v.push(Act::Withdraw { user: u.to_string(), part: part.to_string() });
                }
            }
        }
        if supply > 0 {
            for kind in ["direct_coin", "forged_receive"] {
                v.push(Act::BadWithdraw { user: MALLORY.to_string(), kind: kind.to_string() });
            }
            for idx in 0..2u8 {
                if matches!(h.pair.assets[idx as usize], AssetInfo::Token { .. }) {
                    v.push(Act::SwapAddrCoin { user: MALLORY.to_string(), idx });
                }
            }
            if h.pair.assets.iter().any(|a| matches!(a, AssetInfo::NativeToken { .. })) {
                v.push(Act::BadProvide { user: MALLORY.to_string(), kind: "native_labelled_as_token".to_string() });
                v.push(Act::BadProvide { user: MALLORY.to_string(), kind: "underfunded_native".to_string() });
                // an asset list whose second entry is not the other pool asset: a token the pool does not hold, or the
                // first entry again (the first entry is a pool asset and is paid for)
                for j in 0..2 {
                    v.push(Act::BadProvide { user: MALLORY.to_string(), kind: format!("second_entry_foreign:{j}") });
                    v.push(Act::BadProvide { user: MALLORY.to_string(), kind: format!("first_entry_twice:{j}") });
                }
                for idx in 0..2u8 {
                    if let AssetInfo::NativeToken { denom } = &h.pair.assets[idx as usize] {
                        if (self.property == "C01" || self.property == "C03") && w.native_balance(&h.pair.addr, &denom.to_uppercase()) == 0 {
                            v.push(Act::SendLookalike { idx });
                        }
                    }
                }
                for dir in 0..2u8 {
                    if matches!(h.pair.assets[dir as usize], AssetInfo::NativeToken { .. }) {
                        v.push(Act::BadSwap { user: MALLORY.to_string(), dir });
                        // (dir + 2: the same message with no coins attached at all)
                        v.push(Act::BadSwap { user: MALLORY.to_string(), dir: dir + 2 });
                    }
                }
            }
        }
        v.push(Act::Collect { user: MALLORY.to_string() });
        for i in 0..self.fee_alphabet.len() {
            v.push(Act::SetFees { idx: i });
        }
        v
    }

    fn step(&self, w: &mut World, h: &H, g: &mut G, a: &Act, cx: &mut Cx) {
        let pre = reserves(w, h);
        let pre_pending = pair_fees(w, &h.pair.addr, false).unwrap_or([0, 0]);
        let p = &h.pair;
        match a {
            Act::Provide { user, shape, receiver, reversed } => {
                let (res, supply) = pre.unwrap();
                let d = shape_amounts(shape, res);
                let rcv = receiver.clone().unwrap_or(user.clone());
                let lp_before = w.cw20_balance(&p.lp, &rcv);
                let ub = [info_balance(w, &p.assets[0], user), info_balance(w, &p.assets[1], user)];
                let r = pair_provide_ordered(w, p, user, d, None, receiver.as_deref(), *reversed);
                match r {
                    Ok(_) => {
                        cx.count("provide:ok");
                        let minted = w.cw20_balance(&p.lp, &rcv) - lp_before;
                        let ua = [info_balance(w, &p.assets[0], user), info_balance(w, &p.assets[1], user)];
                        cx.check("provide.user_paid_exactly", ub[0] - ua[0] == d[0] && ub[1] - ua[1] == d[1], || {
                            format!("deposit {:?} but user balance moved {:?}->{:?}", d, ub, ua)
                        });
                        if supply > 0 {
                            self.oracle_deposit(cx, h, res, supply, d, minted);
                            // probe: withdraw the minted shares immediately, on a copy
                            if minted > 0 {
                                let snap = w.kv_clone();
                                let rb = [info_balance(w, &p.assets[0], &rcv), info_balance(w, &p.assets[1], &rcv)];
                                if pair_withdraw(w, &p.addr, &p.lp, &rcv, minted).is_ok() {
                                    let ra = [info_balance(w, &p.assets[0], &rcv), info_balance(w, &p.assets[1], &rcv)];
                                    let got = [ra[0] - rb[0], ra[1] - rb[1]];
                                    self.oracle_roundtrip(cx, h, res, d, got);
                                    if let Some(amp) = self.stable_amp {
                                        if let Some((r2, s2)) = reserves(w, h) {
                                            if s2 > 0 {
                                                // a round trip through a deposit that is explained by the known raw-amount
                                                // LP mint (unequal decimals) belongs to that finding
                                                let known = h.pair.decimals[0] != h.pair.decimals[1] && refmath::explained_by_raw_invariant(amp, res, [res[0] + d[0], res[1] + d[1]], supply, minted);
                                                self.oracle_lp_value_sig(cx, h, a, res, supply, r2, s2, if known { Some("unequal-decimals-deposit") } else { Some("") });
                                            }
                                        }
                                    }
                                    cx.count("probe:deposit_withdraw");
                                }
                                w.kv_restore(&snap);
                            }
                        } else {
                            cx.count("provide:first");
                            // first deposit: exactly MINIMUM_LIQUIDITY (x2 for stableswap) locked in the pair
                            let locked = w.cw20_balance(&p.lp, &p.addr);
                            let want = if self.stable_amp.is_some() { 2000 } else { 1000 };
                            cx.check("first_deposit.locks_minimum", locked == want, || format!("pair holds {} LP after first deposit, expected {}", locked, want));
                        }
                    }
                    Err(e) => {
                        cx.count("provide:rejected");
                        cx.note(|| format!("rejected: {}", e.msg()));
                    }
                }
            }
            Act::Withdraw { user, part } => {
                let (res, supply) = pre.unwrap();
                let bal = w.cw20_balance(&p.lp, user);
                let amt = match part.as_str() {
                    "all" => bal,
                    "half" => bal / 2,
                    _ => 1,
                };
                let ub = [info_balance(w, &p.assets[0], user), info_balance(w, &p.assets[1], user)];
                match pair_withdraw(w, &p.addr, &p.lp, user, amt) {
                    Ok(_) => {
                        cx.count("withdraw:ok");
                        let ua = [info_balance(w, &p.assets[0], user), info_balance(w, &p.assets[1], user)];
                        for i in 0..2 {
                            let got = ua[i] - ub[i];
                            let max = (b(res[i]) * b(amt) / b(supply)).low_u128();
                            cx.check("withdraw.at_most_pro_rata", got <= max, || {
                                format!("withdraw {} of {} LP paid {} of asset {} > pro-rata {} (reserve {})", amt, supply, got, i, max, res[i])
                            });
                        }
                        let lp_after = w.cw20_supply(&p.lp);
                        cx.check("withdraw.burns_exactly", supply - lp_after == amt, || format!("supply {}->{} for withdrawal of {}", supply, lp_after, amt));
                    }
                    Err(e) => {
                        cx.count("withdraw:rejected");
                        cx.note(|| format!("rejected: {}", e.msg()));
                    }
                }
            }
            Act::SendLookalike { idx } => {
                if let AssetInfo::NativeToken { denom } = &p.assets[*idx as usize] {
                    let r = w.exec_cosmos(MALLORY, cosmwasm_std::BankMsg::Send { to_address: p.addr.clone(), amount: vec![cosmwasm_std::coin(10_001, denom.to_uppercase())] }.into());
                    cx.count(if r.is_ok() { "lookalike:sent" } else { "lookalike:failed" });
                }
            }
            Act::SwapAddrCoin { user, idx } => {
                let (res, _) = pre.unwrap();
                let i = *idx as usize;
                let amt = (res[i] / 10).max(2);
                let ub = [info_balance(w, &p.assets[0], user), info_balance(w, &p.assets[1], user)];
                match addr_coin_swap(w, p, user, i, amt) {
                    Some(Ok(_)) => {
                        cx.count("addr_coin_swap:accepted");
                        let ua = [info_balance(w, &p.assets[0], user), info_balance(w, &p.assets[1], user)];
                        cx.check("swap.user_deltas", ua[0] <= ub[0] && ua[1] <= ub[1], || {
                            format!("a swap offering {} bank coins spelled like the address of the pool's cw20 asset {} (not a pool asset) was accepted and paid the sender: pool-asset balances {:?} -> {:?}", amt, i, ub, ua)
                        });
                    }
                    Some(Err(_)) => cx.count("addr_coin_swap:rejected"),
                    None => {}
                }
            }
            Act::BadSwap { user, dir } => {
                // a swap whose message declares a tenth of the reserve of a native asset while one unit is attached
                let (res, _) = pre.unwrap();
                let nothing_attached = *dir >= 2;
                let dir = &(*dir & 1);
                let offer = &p.assets[*dir as usize];
                let ask = &p.assets[1 - *dir as usize];
                let declared = (res[*dir as usize] / 10).max(2);
                let ub = [info_balance(w, offer, user), info_balance(w, ask, user)];
                let r = match offer {
                    AssetInfo::NativeToken { denom } => w.exec(
                        user,
                        &p.addr,
                        &white_whale_std::pool_network::pair::ExecuteMsg::Swap { offer_asset: asset(offer, declared), belief_price: loose_belief(), max_spread: Some(cosmwasm_std::Decimal::percent(50)), to: None },
                        &if nothing_attached { vec![] } else { vec![cosmwasm_std::coin(1, denom)] },
                    ),
                    _ => return,
                };
                match &r {
                    Ok(_) => {
                        cx.count("bad_swap:accepted");
                        let ua = [info_balance(w, offer, user), info_balance(w, ask, user)];
                        cx.check("swap.user_deltas", ub[0] - ua[0] == declared, || {
                            format!("swap declaring an offer of {} with {} attached was accepted: the user paid {} and received {}", declared, if nothing_attached { "nothing" } else { "1 unit" }, ub[0] - ua[0], ua[1] - ub[1])
                        });
                    }
                    Err(_) => cx.count("bad_swap:rejected"),
                }
            }
            Act::BadProvide { user, kind } => {
                let (res, supply) = pre.unwrap();
                let d = [(res[0] / 10).max(2), (res[1] / 10).max(2)];
                let underfunded = kind == "underfunded_native";
                let mut assets = vec![];
                if kind.starts_with("second_entry_foreign:") || kind.starts_with("first_entry_twice:") {
                    let j: usize = kind.rsplit(':').next().unwrap().parse().unwrap();
                    let second = if kind.starts_with("second_entry_foreign:") { AssetInfo::Token { contract_addr: "unrelatedtoken".to_string() } } else { p.assets[j].clone() };
                    let ub = [info_balance(w, &p.assets[0], user), info_balance(w, &p.assets[1], user)];
                    let lpb = w.cw20_balance(&p.lp, user);
                    let mut funds: Vec<cosmwasm_std::Coin> = vec![];
                    match &p.assets[j] {
                        AssetInfo::NativeToken { denom } => funds.push(cosmwasm_std::coin(d[j], denom)),
                        AssetInfo::Token { contract_addr } => w.cw20_allow(contract_addr, user, &p.addr, d[j]),
                    }
                    let r = w.exec(user, &p.addr, &white_whale_std::pool_network::pair::ExecuteMsg::ProvideLiquidity { assets: [asset(&p.assets[j], d[j]), asset(&second, d[1 - j])], slippage_tolerance: None, receiver: None }, &funds);
                    let ua = [info_balance(w, &p.assets[0], user), info_balance(w, &p.assets[1], user)];
                    let minted = w.cw20_balance(&p.lp, user) - lpb;
                    match &r {
                        Ok(_) => {
                            cx.count("bad_provide:accepted");
                            // whatever the pool made of the list, shares may only be minted for assets that arrived
                            cx.check("provide.user_paid_exactly", minted == 0 || (ub[0] - ua[0] == d[0] && ub[1] - ua[1] == d[1]), || {
                                format!("deposit listing {:?} {} and then '{}' {} was accepted: user balance moved {:?}->{:?}, minted {} of supply {}", p.assets[j], d[j], kind, d[1 - j], ub, ua, minted, supply)
                            });
                        }
                        Err(_) => {
                            cx.count("bad_provide:rejected");
                            if let AssetInfo::Token { contract_addr } = &p.assets[j] {
                                let _ = w.exec(user, contract_addr, &cw20::Cw20ExecuteMsg::DecreaseAllowance { spender: p.addr.clone(), amount: cosmwasm_std::Uint128::new(u128::MAX), expires: None }, &[]);
                            }
                        }
                    }
                } else {
                for i in 0..2 {
                    let info = match &p.assets[i] {
                        AssetInfo::NativeToken { denom } if !underfunded => AssetInfo::Token { contract_addr: denom.clone() },
                        other => other.clone(),
                    };
                    if let AssetInfo::Token { contract_addr } = &p.assets[i] {
                        w.cw20_allow(contract_addr, user, &p.addr, d[i]);
                    }
                    assets.push(asset(&info, d[i]));
                }
                let ub = [info_balance(w, &p.assets[0], user), info_balance(w, &p.assets[1], user)];
                let lpb = w.cw20_balance(&p.lp, user);
                // (underfunded: every native asset is declared in full but only one unit of it is attached)
                let mut funds: Vec<cosmwasm_std::Coin> = vec![];
                if underfunded {
                    for a in p.assets.iter() {
                        if let AssetInfo::NativeToken { denom } = a {
                            funds.push(cosmwasm_std::coin(1, denom));
                        }
                    }
                    funds.sort_by(|a, b| a.denom.cmp(&b.denom));
                }
                let r = w.exec(user, &p.addr, &white_whale_std::pool_network::pair::ExecuteMsg::ProvideLiquidity { assets: [assets[0].clone(), assets[1].clone()], slippage_tolerance: None, receiver: None }, &funds);
                let ua = [info_balance(w, &p.assets[0], user), info_balance(w, &p.assets[1], user)];
                let minted = w.cw20_balance(&p.lp, user) - lpb;
                match &r {
                    Ok(_) => {
                        cx.count("bad_provide:accepted");
                        cx.check("provide.user_paid_exactly", ub[0] - ua[0] == d[0] && ub[1] - ua[1] == d[1], || {
                            format!("deposit {:?} sent as '{}' was accepted: user balance moved {:?}->{:?}, minted {} of supply {}", d, kind, ub, ua, minted, supply)
                        });
                    }
                    Err(_) => {
                        cx.count("bad_provide:rejected");
                        for a in p.assets.iter() {
                            if let AssetInfo::Token { contract_addr } = a {
                                let _ = w.exec(user, contract_addr, &cw20::Cw20ExecuteMsg::DecreaseAllowance { spender: p.addr.clone(), amount: cosmwasm_std::Uint128::new(u128::MAX), expires: None }, &[]);
                            }
                        }
                    }
                }
                }
            }
            Act::BadWithdraw { user, kind } => {
                let (_, supply) = pre.unwrap();
                let ub = [info_balance(w, &p.assets[0], user), info_balance(w, &p.assets[1], user)];
                let native = p.assets.iter().find_map(|a| match a {
                    AssetInfo::NativeToken { denom } => Some(denom.clone()),
                    _ => None,
                });
                let amt = 1000u128.min(supply);
                let r = match (kind.as_str(), native) {
                    ("direct_coin", Some(d)) => w.exec(user, &p.addr, &white_whale_std::pool_network::pair::ExecuteMsg::WithdrawLiquidity {}, &[cosmwasm_std::coin(amt, d)]),
                    ("direct_coin", None) => w.exec(user, &p.addr, &white_whale_std::pool_network::pair::ExecuteMsg::WithdrawLiquidity {}, &[]),
                    _ => w.exec(
                        user,
                        &p.addr,
                        &white_whale_std::pool_network::pair::ExecuteMsg::Receive(cw20::Cw20ReceiveMsg {
                            sender: user.clone(),
                            amount: cosmwasm_std::Uint128::new(amt),
                            msg: cosmwasm_std::to_json_binary(&white_whale_std::pool_network::pair::Cw20HookMsg::WithdrawLiquidity {}).unwrap(),
                        }),
                        &[],
                    ),
                };
                match r {
                    Ok(_) => {
                        cx.count("bad_withdraw:accepted");
                        let ua = [info_balance(w, &p.assets[0], user), info_balance(w, &p.assets[1], user)];
                        let lp_after = w.cw20_supply(&p.lp);
                        cx.check("withdraw.needs_lp_shares", ua[0] <= ub[0] && ua[1] <= ub[1] && lp_after == supply, || {
                            format!("{} by {} (holding no LP shares) succeeded: balances {:?}->{:?}, LP supply {}->{}", kind, user, ub, ua, supply, lp_after)
                        });
                    }
                    Err(_) => cx.count("bad_withdraw:rejected"),
                }
            }
            Act::Swap { user, dir, amount, loose } => {
                let offer = &p.assets[*dir as usize];
                let ask = &p.assets[1 - *dir as usize];
                let ub = [info_balance(w, offer, user), info_balance(w, ask, user)];
                let (belief, spread) = if *loose { (loose_belief(), None) } else { (None, None) };
                match pair_swap(w, &p.addr, user, offer, *amount, belief, spread, None) {
                    Ok(resp) => {
                        cx.count("swap:ok");
                        let ua = [info_balance(w, offer, user), info_balance(w, ask, user)];
                        let ret = attr_u128(&resp, Some(&p.addr), "swap", "return_amount").unwrap_or(u128::MAX);
                        let pf = attr_u128(&resp, Some(&p.addr), "swap", "protocol_fee_amount").unwrap_or(0);
                        let bf = attr_u128(&resp, Some(&p.addr), "swap", "burn_fee_amount").unwrap_or(0);
                        g.charged[1 - *dir as usize] += pf;
                        g.burned[1 - *dir as usize] += bf;
                        if pf > 0 {
                            cx.count("swap:protocol_fee>0");
                        }
                        if bf > 0 {
                            cx.count("swap:burn_fee>0");
                        }
                        cx.check("swap.user_deltas", ub[0] - ua[0] == *amount && ua[1] - ub[1] == ret, || {
                            format!("swap offer {} return attr {} but user deltas offer -{} ask +{}", amount, ret, ub[0] - ua[0], ua[1] - ub[1])
                        });
                        if let Some((res, _)) = pre {
                            if self.stable_amp.is_none() {
                                cx.check("swap.return_lt_ask_reserve", ret < res[1 - *dir as usize] || res[1 - *dir as usize] == 0, || {
                                    format!("return {} >= ask reserve {}", ret, res[1 - *dir as usize])
                                });
                            } else if whole_token(&res, &h.pair.decimals) {
                                cx.check("swap.proceeds_never_exceed_ask_reserve", ret <= res[1 - *dir as usize], || format!("return {} > ask reserve {}", ret, res[1 - *dir as usize]));
                            }
                        }
                    }
                    Err(e) => {
                        cx.count(if e.is_panic() { "swap:panic" } else { "swap:rejected" });
                        cx.note(|| format!("rejected: {}", e.msg()));
                    }
                }
            }
            Act::Collect { user } | Act::CollectVia { user } => {
                let holders: Vec<&str> = vec![ALICE, BOB, CAROL, MALLORY, OWNER, &h.hub.factory];
                let cb = [info_balance(w, &p.assets[0], &h.hub.collector), info_balance(w, &p.assets[1], &h.hub.collector)];
                let ob: Vec<[u128; 2]> = holders.iter().map(|x| [info_balance(w, &p.assets[0], x), info_balance(w, &p.assets[1], x)]).collect();
                let r = match a {
                    Act::Collect { .. } => w.exec(user, &p.addr, &white_whale_std::pool_network::pair::ExecuteMsg::CollectProtocolFees {}, &[]),
                    _ => w.exec(
                        user,
                        &h.hub.collector,
                        &white_whale_std::fee_collector::ExecuteMsg::CollectFees {
                            collect_fees_for: white_whale_std::fee_collector::FeesFor::Contracts {
                                contracts: vec![white_whale_std::fee_collector::Contract {
                                    address: p.addr.clone(),
                                    contract_type: white_whale_std::fee_collector::ContractType::Pool {},
                                }],
                            },
                        },
                        &[],
                    ),
                };
                match r {
                    Ok(_) => {
                        cx.count("collect:ok");
                        if pre_pending[0] > 0 || pre_pending[1] > 0 {
                            cx.count("collect:nonzero");
                        }
                        if (pre_pending[0] > 0 && pre_pending[0] <= 1000) || (pre_pending[1] > 0 && pre_pending[1] <= 1000) {
                            cx.count("collect:sub_threshold_pending");
                        }
                        if self.property == "C07" {
                            let ca = [info_balance(w, &p.assets[0], &h.hub.collector), info_balance(w, &p.assets[1], &h.hub.collector)];
                            let post_pending = pair_fees(w, &h.pair.addr, false).unwrap_or([0, 0]);
                            for i in 0..2 {
                                let sig = if pre_pending[i] <= 1000 { "pending<=1000" } else { "" };
                                cx.check_sig("collect.transfers_exactly_the_ledger_decrease", sig, ca[i] - cb[i] == pre_pending[i] - post_pending[i], || {
                                    format!("collector got {} of asset {} but the pending ledger went {} -> {}", ca[i] - cb[i], i, pre_pending[i], post_pending[i])
                                });
                            }
                            let oa: Vec<[u128; 2]> = holders.iter().map(|x| [info_balance(w, &p.assets[0], x), info_balance(w, &p.assets[1], x)]).collect();
                            cx.check("collect.nobody_else_is_paid", oa == ob, || format!("balances of {:?} changed on collect: {:?} -> {:?}", holders, ob, oa));
                            if let (Some((r0, s0)), Some((r1, s1))) = (pre, reserves(w, h)) {
                                let sig = if pre_pending[0] <= 1000 && pre_pending[1] <= 1000 { "pending<=1000" } else if pre_pending[0] <= 1000 || pre_pending[1] <= 1000 { "pending<=1000" } else { "" };
                                cx.check_sig("collect.lp_reserves_unchanged", sig, r0 == r1 && s0 == s1, || format!("reported reserves changed on collect: {:?}/{} -> {:?}/{}", r0, s0, r1, s1));
                            }
                        }
                    }
                    Err(e) => {
                        cx.count("collect:rejected");
                        cx.note(|| format!("rejected: {}", e.msg()));
                    }
                }
            }
            Act::SetFees { idx } => {
                let f = self.fee_alphabet[*idx];
                let r = w.exec(
                    OWNER,
                    &h.hub.factory,
                    &white_whale_std::pool_network::factory::ExecuteMsg::UpdatePairConfig {
                        pair_addr: p.addr.clone(),
                        owner: None,
                        fee_collector_addr: None,
                        pool_fees: Some(f.pool()),
                        feature_toggle: None,
                    },
                    &[],
                );
                cx.count(if r.is_ok() { "setfees:ok" } else { "setfees:rejected" });
            }
        }
        // ---- oracles common to every accepted or rejected operation
        let post = reserves(w, h);
        if let (Some((r0, s0)), Some((r1, s1))) = (pre, post) {
            if s0 > 0 && s1 > 0 {
                self.oracle_lp_value(cx, h, a, r0, s0, r1, s1);
            }
        }
        let locked = w.cw20_balance(&p.lp, &p.addr);
        cx.check("min_liquidity.never_decreases", locked >= g.locked, || format!("pair-held LP went {} -> {}", g.locked, locked));
        g.locked = locked;
        self.keep_own(cx);
    }

    fn invariants(&self, w: &mut World, h: &H, _g: &G, cx: &mut Cx) {
        let p = &h.pair;
        match pair_pool(w, &p.addr) {
            Err(e) => cx.violate("pool_query.succeeds", "", format!("Pool query failed: {e}")),
            Ok((res, supply)) => {
                let pending = pair_fees(w, &p.addr, false).unwrap_or([u128::MAX, u128::MAX]);
                for i in 0..2 {
                    let bal = info_balance(w, &p.assets[i], &p.addr);
                    cx.check(
                        "solvent.balance_covers_reserve_plus_fees",
                        pending[i] != u128::MAX && bal >= res[i].saturating_add(pending[i]),
                        || format!("asset {}: balance {} < reported reserve {} + pending protocol fees {}", i, bal, res[i], pending[i]),
                    );
                }
                let real_supply = w.cw20_supply(&p.lp);
                cx.check("pool_query.total_share_is_supply", supply == real_supply, || format!("total_share {} != LP supply {}", supply, real_supply));
                if supply > 0 {
                    let locked = w.cw20_balance(&p.lp, &p.addr);
                    cx.check("min_liquidity.locked", locked >= 1000, || format!("pair holds only {} LP", locked));
                }
                if self.property == "C07" {
                    let all_time = pair_fees(w, &p.addr, true).unwrap_or([u128::MAX; 2]);
                    let burned = pair_burned(w, &p.addr).unwrap_or([u128::MAX; 2]);
                    for i in 0..2 {
                        let coll = info_balance(w, &p.assets[i], &h.hub.collector);
                        cx.check("ledger.pending_is_charged_minus_transferred", pending[i] == _g.charged[i].wrapping_sub(coll), || {
                            format!("asset {}: pending ledger {} != charged {} - transferred to collector {}", i, pending[i], _g.charged[i], coll)
                        });
                        cx.check("ledger.all_time_is_sum_of_charges", all_time[i] == _g.charged[i], || format!("asset {}: all-time collected {} != sum of charges {}", i, all_time[i], _g.charged[i]));
                        cx.check("ledger.burned_is_sum_of_burns", burned[i] == _g.burned[i], || format!("asset {}: all-time burned {} != sum of burn charges {}", i, burned[i], _g.burned[i]));
                        let sup = info_supply(w, &p.assets[i]);
                        cx.check("burn.leaves_circulation", sup == _g.supply0[i] - _g.burned[i], || format!("asset {}: supply {} != initial {} - burned {}", i, sup, _g.supply0[i], _g.burned[i]));
                    }
                }
                if self.probe == Probe::SimEqExec {
                    self.probe_sim_eq_exec(w, h, res, cx);
                }
                if self.probe == Probe::Spread {
                    self.probe_spread(w, h, res, cx);
                }
            }
        }
        self.keep_own(cx);
    }
}

impl PairScn {
    /// LP value never decreases: CP → sqrt(R0*R1)/S ; stableswap → D(normalised)/S.
    #[allow(clippy::too_many_arguments)]
    fn oracle_lp_value(&self, cx: &mut Cx, h: &H, a: &Act, r0: [u128; 2], s0: u128, r1: [u128; 2], s1: u128) {
        self.oracle_lp_value_sig(cx, h, a, r0, s0, r1, s1, None)
    }

    #[allow(clippy::too_many_arguments)]
    fn oracle_lp_value_sig(&self, cx: &mut Cx, h: &H, a: &Act, r0: [u128; 2], s0: u128, r1: [u128; 2], s1: u128, sig_override: Option<&str>) {
        if !self.lp_oracles() {
            return;
        }
        match self.stable_amp {
            None => {
                // R0'R1' * S^2 >= R0R1 * S'^2   (exact integers)
                let lhs = b(r1[0]) * b(r1[1]) * b(s0) * b(s0);
                let rhs = b(r0[0]) * b(r0[1]) * b(s1) * b(s1);
                cx.check("lp_value.non_decreasing", lhs >= rhs, || {
                    format!("{:?}: sqrt(R0R1)/S fell: reserves {:?} S {} -> reserves {:?} S {}", a, r0, s0, r1, s1)
                });
            }
            Some(amp) => {
                // the property is stated for pools holding at least one whole token of each asset
                if !whole_token(&r0, &h.pair.decimals) || !whole_token(&r1, &h.pair.decimals) {
                    cx.count("stable:below_one_whole_token_skipped");
                    return;
                }
                let d0 = refmath::stable_d_norm(amp, &[r0[0], r0[1]], &h.pair.decimals);
                let d1 = refmath::stable_d_norm(amp, &[r1[0], r1[1]], &h.pair.decimals);
                // D1/S1 >= D0/S0 with both invariants known to +-2 base units of the coarser asset
                let u2 = refmath::lp_dust(&h.pair.decimals) / b(4);
                let mut lhs = (d1 + u2) * b(s0);
                let rhs = d0.saturating_sub(u2) * b(s1);
                if lhs < rhs {
                    let sd0 = refmath::slope_dust_norm(amp, &[r0[0], r0[1]], &h.pair.decimals);
                    let sd1 = refmath::slope_dust_norm(amp, &[r1[0], r1[1]], &h.pair.decimals);
                    let sd = if sd0 > sd1 { sd0 } else { sd1 };
                    lhs = (d1 + sd) * b(s0);
                    cx.count("stable:slope_dust_used");
                }
                let sig = if h.pair.decimals[0] != h.pair.decimals[1]
                    && matches!(a, Act::Provide { .. })
                    && lhs < rhs
                    && s1 > s0
                    && r1[0] >= r0[0]
                    && r1[1] >= r0[1]
                    && refmath::explained_by_raw_invariant(amp, r0, r1, s0, s1 - s0)
                {
                    "unequal-decimals-deposit"
                } else {
                    ""
                };
                let sig = sig_override.unwrap_or(sig);
                cx.check_sig("lp_value.non_decreasing", sig, lhs >= rhs, || {
                    format!("{:?}: D_norm/S fell: reserves {:?} S {} (D {}) -> reserves {:?} S {} (D {})", a, r0, s0, d0, r1, s1, d1)
                });
            }
        }
    }

    fn oracle_deposit(&self, cx: &mut Cx, h: &H, res: [u128; 2], supply: u128, d: [u128; 2], minted: u128) {
        if !self.lp_oracles() {
            return;
        }
        match self.stable_amp {
            None => {
                let m0 = b(d[0]) * b(supply) / b(res[0].max(1));
                let m1 = b(d[1]) * b(supply) / b(res[1].max(1));
                let max = if m0 < m1 { m0 } else { m1 };
                cx.check("deposit.mints_at_most_pro_rata", b(minted) <= max, || {
                    format!("deposit {:?} into reserves {:?} supply {} minted {} > min-ratio {}", d, res, supply, minted, max)
                });
            }
            Some(amp) => {
                if !whole_token(&res, &h.pair.decimals) {
                    return;
                }
                let d0 = refmath::stable_d_norm(amp, &[res[0], res[1]], &h.pair.decimals);
                let d1 = refmath::stable_d_norm(amp, &[res[0] + d[0], res[1] + d[1]], &h.pair.decimals);
                // integer invariants in the contract: D0, D1 known to +-2 base units of the coarser asset
                let u2 = refmath::lp_dust(&h.pair.decimals) / b(4);
                let d0_lo = d0.saturating_sub(u2);
                let lhs = b(minted) * d0_lo;
                let mut rhs = b(supply) * ((d1 + u2).saturating_sub(d0_lo));
                if lhs > rhs {
                    let sd = refmath::slope_dust_norm(amp, &[res[0], res[1]], &h.pair.decimals);
                    rhs = b(supply) * ((d1 + sd).saturating_sub(d0_lo));
                }
                let sig = if h.pair.decimals[0] != h.pair.decimals[1] && lhs > rhs && refmath::explained_by_raw_invariant(amp, res, [res[0] + d[0], res[1] + d[1]], supply, minted) {
                    "unequal-decimals-deposit"
                } else {
                    ""
                };
                cx.check_sig("deposit.mints_at_most_invariant_growth", sig, lhs <= rhs, || {
                    format!("deposit {:?} into {:?} supply {}: minted {} but D_norm {} -> {}", d, res, supply, minted, d0, d1)
                });
            }
        }
    }

    fn oracle_roundtrip(&self, cx: &mut Cx, h: &H, _res: [u128; 2], d: [u128; 2], got: [u128; 2]) {
        if !self.lp_oracles() {
            return;
        }
        match self.stable_amp {
            None => {
                cx.check("deposit_then_withdraw.no_gain", got[0] <= d[0] && got[1] <= d[1], || {
                    format!("deposited {:?} and immediately withdrew {:?}", d, got)
                });
            }
            Some(_) => {
                // for the stableswap pool the value of an unbalanced deposit is its invariant increase;
                // the round trip is judged by `oracle_lp_value` on the pool state (see step), here only a
                // coarse sanity bound: nothing comes back that was not in the pool or the deposit
                cx.check("deposit_then_withdraw.no_gain", got[0] <= _res[0] + d[0] && got[1] <= _res[1] + d[1], || format!("deposited {:?} and immediately withdrew {:?}", d, got));
            }
        }
    }

    fn offers_for_probe(res: [u128; 2], dir: usize) -> Vec<u128> {
        let r = res[dir];
        let mut v = vec![1u128, 999, 1_000_000, (r / 10).max(2), r.max(3)];
        v.sort();
        v.dedup();
        v
    }

    /// C14: Simulation{offer} == what executing the same swap transfers and records.
    fn probe_sim_eq_exec(&self, w: &mut World, h: &H, res: [u128; 2], cx: &mut Cx) {
        let p = &h.pair;
        if res[0] == 0 || res[1] == 0 {
            return;
        }
        let snap = w.kv_clone();
        // an offer of a bank coin spelled like the address of the pool's cw20 asset: quote and execution must agree
        // (both refuse it: it is not a pool asset)
        for dir in 0..2usize {
            if let AssetInfo::Token { contract_addr } = &p.assets[dir] {
                let amt = (res[dir] / 10).max(2);
                let sim: Result<SimulationResponse, String> = w.query(&p.addr, &PairQuery::Simulation { offer_asset: asset(&native(contract_addr), amt) });
                let ex = addr_coin_swap(w, p, MALLORY, dir, amt).unwrap();
                cx.count("probe:sim_vs_exec:addr_coin");
                let same = match (&sim, &ex) {
                    (Err(_), Err(_)) => true,
                    (Ok(s), Ok(resp)) => attr_u128(resp, Some(&p.addr), "swap", "return_amount") == Some(s.return_amount.u128()) && attr_u128(resp, Some(&p.addr), "swap", "spread_amount") == Some(s.spread_amount.u128()),
                    _ => false,
                };
                cx.check("sim_eq_exec.same_outcome", same, || {
                    format!("offer of {} bank coins named like the cw20 asset {}: simulation {:?} but execution {:?}", amt, dir, sim, ex.as_ref().map(|r| (attr_u128(r, Some(&p.addr), "swap", "return_amount"), attr_u128(r, Some(&p.addr), "swap", "spread_amount"))).map_err(|e| e.msg().to_string()))
                });
                w.kv_restore(&snap);
            }
        }
        for dir in 0..2usize {
            let offer = &p.assets[dir];
            let ask = &p.assets[1 - dir];
            for amt in Self::offers_for_probe(res, dir) {
                let sim: Result<SimulationResponse, String> = w.query(&p.addr, &PairQuery::Simulation { offer_asset: asset(offer, amt) });
                let ub = info_balance(w, ask, MALLORY);
                let pb = [info_balance(w, offer, &p.addr), info_balance(w, ask, &p.addr)];
                let pend_b = pair_fees(w, &p.addr, false).unwrap_or([0, 0]);
                let burned_b = pair_burned(w, &p.addr).unwrap_or([0, 0]);
                let supply_b = info_supply(w, ask);
                let ex = pair_swap(w, &p.addr, MALLORY, offer, amt, loose_belief(), None, None);
                cx.count("probe:sim_vs_exec");
                match (&sim, &ex) {
                    (Ok(s), Ok(resp)) => {
                        cx.count("probe:sim_vs_exec:both_ok");
                        let ret = attr_u128(resp, Some(&p.addr), "swap", "return_amount");
                        let spr = attr_u128(resp, Some(&p.addr), "swap", "spread_amount");
                        let sf = attr_u128(resp, Some(&p.addr), "swap", "swap_fee_amount");
                        let pf = attr_u128(resp, Some(&p.addr), "swap", "protocol_fee_amount");
                        let bf = attr_u128(resp, Some(&p.addr), "swap", "burn_fee_amount");
                        let ok_attrs = ret == Some(s.return_amount.u128())
                            && spr == Some(s.spread_amount.u128())
                            && sf == Some(s.swap_fee_amount.u128())
                            && pf == Some(s.protocol_fee_amount.u128())
                            && bf == Some(s.burn_fee_amount.u128());
                        cx.check("sim_eq_exec.attributes", ok_attrs, || {
                            format!("dir {} offer {}: simulation {:?} vs executed attrs ret {:?} spread {:?} swap {:?} protocol {:?} burn {:?}", dir, amt, s, ret, spr, sf, pf, bf)
                        });
                        let ua = info_balance(w, ask, MALLORY);
                        let pa = [info_balance(w, offer, &p.addr), info_balance(w, ask, &p.addr)];
                        let pend_a = pair_fees(w, &p.addr, false).unwrap_or([0, 0]);
                        let burned_a = pair_burned(w, &p.addr).unwrap_or([0, 0]);
                        let supply_a = info_supply(w, ask);
                        let ok_bal = ua - ub == s.return_amount.u128()
                            && pa[0] - pb[0] == amt
                            && pb[1] - pa[1] == s.return_amount.u128() + s.burn_fee_amount.u128()
                            && pend_a[1 - dir] - pend_b[1 - dir] == s.protocol_fee_amount.u128()
                            && pend_a[dir] == pend_b[dir]
                            && burned_a[1 - dir] - burned_b[1 - dir] == s.burn_fee_amount.u128()
                            && supply_b - supply_a == s.burn_fee_amount.u128();
                        cx.check("sim_eq_exec.transfers_and_ledgers", ok_bal, || {
                            format!(
                                "dir {} offer {}: simulation {:?}; receiver +{}, pool offer +{}, pool ask -{}, pending {:?}->{:?}, burned {:?}->{:?}, supply -{}",
                                dir, amt, s, ua - ub, pa[0] - pb[0], pb[1] - pa[1], pend_b, pend_a, burned_b, burned_a, supply_b - supply_a
                            )
                        });
                    }
                    (Err(_), Err(_)) => cx.count("probe:sim_vs_exec:both_fail"),
                    (Ok(s), Err(e)) => {
                        cx.check("sim_eq_exec.same_outcome", false, || format!("dir {} offer {}: simulation ok {:?} but execution failed: {}", dir, amt, s, e.msg()));
                    }
                    (Err(e), Ok(_)) => {
                        cx.check("sim_eq_exec.same_outcome", false, || format!("dir {} offer {}: simulation failed ({}) but execution succeeded", dir, amt, e));
                    }
                }
                w.kv_restore(&snap);
            }
        }
    }

    /// C15 (realised): swaps with each (max_spread, belief) succeed iff within the documented bound.
    fn probe_spread(&self, w: &mut World, h: &H, res: [u128; 2], cx: &mut Cx) {
        let p = &h.pair;
        if res[0] == 0 || res[1] == 0 {
            return;
        }
        let snap = w.kv_clone();
        let spreads: Vec<Option<u128>> = vec![None, Some(0), Some(1), Some(ONE18 / 100), Some(ONE18 / 2), Some(ONE18 / 2 + 1), Some(ONE18), Some(2 * ONE18)];
        for dir in 0..2usize {
            let offer = &p.assets[dir];
            for amt in Self::offers_for_probe(res, dir) {
                // what would this swap do (no limits)?
                let sim: Result<SimulationResponse, String> = w.query(&p.addr, &PairQuery::Simulation { offer_asset: asset(offer, amt) });
                let s = match sim {
                    Ok(s) => s,
                    Err(_) => continue,
                };
                let gross = s.return_amount.u128() + s.swap_fee_amount.u128() + s.protocol_fee_amount.u128() + s.burn_fee_amount.u128();
                let spread = s.spread_amount.u128();
                // belief prices around the realised price offer/gross
                let mut beliefs: Vec<Option<u128>> = vec![None];
                if gross > 0 {
                    if let Some(px) = (b(amt) * b(ONE18) / b(gross)).low_u128().checked_add(0) {
                        if b(amt) * b(ONE18) / b(gross) <= b(u128::MAX / 4) && px > 0 {
                            beliefs.push(Some(px));
                            beliefs.push(Some(px / 2 + 1));
                            beliefs.push(Some(px.saturating_mul(2)));
                        }
                    }
                }
                for ms in &spreads {
                    for bp in &beliefs {
                        let r = pair_swap(w, &p.addr, MALLORY, offer, amt, bp.map(dec), ms.map(dec), None);
                        cx.count("probe:spread");
                        let verdict = refmath::spread_verdict(amt, gross, spread, *ms, *bp);
                        match (&r, verdict) {
                            (Ok(_), refmath::Spread::MustReject) => cx.check("spread.accepted_only_within_limit", false, || {
                                format!("swap dir {} offer {} gross {} spread {} max_spread {:?} belief {:?} succeeded but exceeds the limit", dir, amt, gross, spread, ms, bp)
                            }),
                            (Err(e), refmath::Spread::MustAccept) if e.msg().contains("Spread limit exceeded") => cx.check("spread.not_rejected_within_limit", false, || {
                                format!("swap dir {} offer {} gross {} spread {} max_spread {:?} belief {:?} rejected for slippage although within the limit", dir, amt, gross, spread, ms, bp)
                            }),
                            (Ok(_), _) => {
                                cx.count("probe:spread:accepted");
                                cx.check("spread.accepted_only_within_limit", true, String::new);
                            }
                            (Err(e), _) => {
                                if e.msg().contains("Spread limit exceeded") {
                                    cx.count("probe:spread:rejected_for_spread");
                                }
                                cx.check("spread.not_rejected_within_limit", true, String::new);
                            }
                        }
                        w.kv_restore(&snap);
                    }
                }
            }
        }
    }
}

/// ExecuteMsg::Swap offering `amount` bank coins whose denom is the contract address of the pair's cw20 asset `idx`
/// (None when that asset is not a cw20 token)
pub fn addr_coin_swap(w: &mut World, p: &PairH, user: &str, idx: usize, amount: u128) -> Option<crate::world::TxResult> {
    let denom = match &p.assets[idx] {
        AssetInfo::Token { contract_addr } => contract_addr.clone(),
        _ => return None,
    };
    Some(w.exec(
        user,
        &p.addr,
        &white_whale_std::pool_network::pair::ExecuteMsg::Swap { offer_asset: asset(&native(&denom), amount), belief_price: loose_belief(), max_spread: Some(Decimal::percent(50)), to: None },
        &[cosmwasm_std::coin(amount, denom)],
    ))
}

pub fn whole_token(r: &[u128; 2], dec: &[u8; 2]) -> bool {
    r[0] >= 10u128.pow(dec[0] as u32) && r[1] >= 10u128.pow(dec[1] as u32)
}

/// sqrt(d0*d1) helper used by first-deposit checks elsewhere
pub fn geo_mean(d0: u128, d1: u128) -> U1024 {
    isqrt(b(d0) * b(d1))
}

pub fn asset_label(a: &AssetInfo) -> String {
    match a {
        AssetInfo::NativeToken { denom } => denom.clone(),
        AssetInfo::Token { contract_addr } => contract_addr.clone(),
    }
}
