//! One deployment with every contract of the liquidity hub, used by the matrix checks
//! (C16 privileges, C18 configuration bounds).

use cosmwasm_std::{Empty, Timestamp, Uint64};
use white_whale_std::epoch_manager::epoch_manager::{EpochConfig, EpochV2};
use white_whale_std::pool_network::asset::{AssetInfo, PairType};

use crate::deploy::*;
use crate::hub::{deploy_fee_hub, FeeHub, HubOpts};
use crate::scn_lair::DAY_NS;
use crate::scn_vault::VH;
use crate::world::{World, GENESIS_TIME_NS};

#[derive(Clone, Debug)]
pub struct FullHub {
    pub fee: FeeHub,
    pub pair: PairH,
    pub trio: TrioH,
    pub vault: VH,
    pub vault_router: String,
    pub ifactory: String,
    pub incentive: String,
    pub helper: String,
    pub epoch_manager: String,
    pub hookrx: String,
    pub adversary: String,
    pub cw20: String,
    pub genesis_ns: u64,
}

pub const FH_FEES: Fee3 = Fee3::new(ONE18 / 1000, 2 * ONE18 / 1000, ONE18 / 1000);

pub fn deploy_full(w: &mut World) -> FullHub {
    let genesis_ns = GENESIS_TIME_NS + 1_000_000_000;
    let mut o = HubOpts::basic(genesis_ns, 2);
    o.native_decimals.push(("uaaa".to_string(), 6));
    o.native_decimals.push(("ubbb".to_string(), 6));
    let fee = deploy_fee_hub(w, &o);
    let cw20 = w.new_cw20("tcc", 6, &[], OWNER);
    for u in [OWNER, ALICE, BOB, MALLORY, "newowner"] {
        for d in ["uwhale", "ubwhale", "uusdc", "uluna", "uaaa", "ubbb", "ureward", "ufee"] {
            w.mint_native(u, 1u128 << 90, d);
        }
        fund(w, &token(&cw20), u, 1u128 << 90);
    }
    let ph = PoolHub { collector: fee.collector.clone(), factory: fee.pool_factory.clone() };
    let pair = create_pair(w, &ph, [native("uusdc"), native("uwhale")], FH_FEES.pool(), PairType::ConstantProduct).expect("pair");
    pair_provide(w, &pair, ALICE, [1_000_000_000, 1_000_000_000], None, None).expect("pair liquidity");
    let trio = create_trio(w, &ph, [native("uaaa"), native("ubbb"), token(&cw20)], FH_FEES.trio(), 100).expect("trio");
    crate::scn_trio::trio_provide(w, &trio, ALICE, [1_000_000_000, 1_000_000_000, 1_000_000_000], None).expect("trio liquidity");
    // vault
    w.exec(
        OWNER,
        &fee.vault_factory,
        &white_whale_std::vault_network::vault_factory::ExecuteMsg::CreateVault { asset_info: native("uwhale"), fees: FH_FEES.vault(), token_factory_lp: false },
        &[],
    )
    .expect("vault");
    let vaddr: Option<String> = w.query(&fee.vault_factory, &white_whale_std::vault_network::vault_factory::QueryMsg::Vault { asset_info: native("uwhale") }).unwrap();
    let vaddr = vaddr.unwrap();
    let vcfg: white_whale_std::vault_network::vault::Config = w.query(&vaddr, &white_whale_std::vault_network::vault::QueryMsg::Config {}).unwrap();
    let vlp = match vcfg.lp_asset {
        AssetInfo::Token { contract_addr } => contract_addr,
        AssetInfo::NativeToken { denom } => denom,
    };
    let vault_router = w
        .instantiate(w.codes.vault_router, OWNER, &white_whale_std::vault_network::vault_router::InstantiateMsg { owner: OWNER.to_string(), vault_factory_addr: fee.vault_factory.clone() }, &[], "vault_router", Some(OWNER))
        .expect("vault router");
    let adversary = w.instantiate(w.codes.adversary, OWNER, &Empty {}, &[], "adversary", None).expect("adversary");
    w.mint_native(&adversary, 1u128 << 90, "uwhale");
    let vault = VH {
        collector: fee.collector.clone(),
        factory: fee.vault_factory.clone(),
        vault: vaddr,
        router: vault_router.clone(),
        adversary: adversary.clone(),
        lp: vlp,
        asset: native("uwhale"),
        root: crate::scn_vault::VaultRoot { label: "full".into(), cw20: false, fees: FH_FEES, first: 0, pre_loan: false },
    };
    crate::scn_vault::vault_deposit(w, &vault, ALICE, 1_000_000_000).expect("vault deposit");
    // incentives
    let ifactory = w
        .instantiate(
            w.codes.incentive_factory,
            OWNER,
            &white_whale_std::pool_network::incentive_factory::InstantiateMsg {
                fee_collector_addr: fee.collector.clone(),
                fee_distributor_addr: fee.distributor.clone(),
                create_flow_fee: asset(&native("ufee"), 1000),
                max_concurrent_flows: 3,
                incentive_code_id: w.codes.incentive,
                max_flow_epoch_buffer: 14,
                min_unbonding_duration: 86_400,
                max_unbonding_duration: 31_556_926,
            },
            &[],
            "incentive_factory",
            Some(OWNER),
        )
        .expect("incentive factory");
    let lp = token(&pair.lp);
    w.exec(OWNER, &ifactory, &white_whale_std::pool_network::incentive_factory::ExecuteMsg::CreateIncentive { lp_asset: lp.clone() }, &[]).expect("create incentive");
    let inc: white_whale_std::pool_network::incentive_factory::IncentiveResponse = w.query(&ifactory, &white_whale_std::pool_network::incentive_factory::QueryMsg::Incentive { lp_asset: lp }).unwrap();
    let incentive = inc.unwrap().to_string();
    let helper = w
        .instantiate(w.codes.frontend_helper, OWNER, &white_whale_std::pool_network::frontend_helper::InstantiateMsg { incentive_factory: ifactory.clone() }, &[], "helper", Some(OWNER))
        .expect("helper");
    // epoch manager + hook receiver
    let epoch_manager = w
        .instantiate(
            w.codes.epoch_manager,
            OWNER,
            &white_whale_std::epoch_manager::epoch_manager::InstantiateMsg {
                start_epoch: EpochV2 { id: 0, start_time: Timestamp::from_nanos(genesis_ns) },
                epoch_config: EpochConfig { duration: Uint64::new(DAY_NS), genesis_epoch: Uint64::new(genesis_ns) },
            },
            &[],
            "epoch_manager",
            Some(OWNER),
        )
        .expect("epoch manager");
    let hookrx = w.instantiate(w.codes.hook_receiver, OWNER, &Empty {}, &[], "hookrx", None).expect("hookrx");
    // first epoch of the distributor so that flows can be opened with a real epoch id
    w.set_time_ns(genesis_ns);
    w.advance(0, 1);
    w.exec(MALLORY, &fee.distributor, &white_whale_std::fee_distributor::ExecuteMsg::NewEpoch {}, &[]).expect("epoch 1");
    FullHub { fee, pair, trio, vault, vault_router, ifactory, incentive, helper, epoch_manager, hookrx, adversary, cw20, genesis_ns }
}
