//! Helper contracts written for the harness (plain closures run inside cw-multi-test).
//!
//! * adversary / proxy: executes whatever list of CosmosMsgs it is told to, so that
//!   (a) `info.sender` of the forwarded call is a contract address and (b) a flash-loan
//!   borrower can perform an arbitrary, pre-computed script inside the callback
//!   (repay any amount, fail, re-enter the vault, take a nested loan whose payload is
//!   again a `Forward`).
//! * hook receiver: logs every `EpochChangedHook` it gets.

use cosmwasm_schema::cw_serde;
use cosmwasm_std::{
    to_json_binary, Binary, CosmosMsg, Deps, DepsMut, Empty, Env, MessageInfo, Response, StdError,
    StdResult,
};
use cw_storage_plus::Item;
use white_whale_std::epoch_manager::epoch_manager::EpochV2;
use white_whale_std::epoch_manager::hooks::EpochChangedHookMsg;

#[cw_serde]
pub enum AdvMsg {
    /// emit these messages in order (all-or-nothing, like any contract response)
    Forward { msgs: Vec<CosmosMsg> },
    /// return an error
    Fail {},
}

pub fn adversary_instantiate(_d: DepsMut, _e: Env, _i: MessageInfo, _m: Empty) -> StdResult<Response> {
    Ok(Response::new())
}
pub fn adversary_execute(_d: DepsMut, _e: Env, _i: MessageInfo, m: AdvMsg) -> StdResult<Response> {
    match m {
        AdvMsg::Forward { msgs } => Ok(Response::new().add_messages(msgs)),
        AdvMsg::Fail {} => Err(StdError::generic_err("adversary: deliberate failure")),
    }
}
pub fn adversary_query(_d: Deps, _e: Env, _m: Empty) -> StdResult<Binary> {
    to_json_binary(&Empty {})
}

#[cw_serde]
pub enum HookRxMsg {
    EpochChangedHook(EpochChangedHookMsg),
}
#[cw_serde]
pub enum HookRxQuery {
    Log {},
}
const HOOK_LOG: Item<Vec<EpochV2>> = Item::new("log");

pub fn hookrx_instantiate(d: DepsMut, _e: Env, _i: MessageInfo, _m: Empty) -> StdResult<Response> {
    HOOK_LOG.save(d.storage, &vec![])?;
    Ok(Response::new())
}
pub fn hookrx_execute(d: DepsMut, _e: Env, _i: MessageInfo, m: HookRxMsg) -> StdResult<Response> {
    match m {
        HookRxMsg::EpochChangedHook(h) => {
            let mut l = HOOK_LOG.load(d.storage)?;
            l.push(h.current_epoch);
            HOOK_LOG.save(d.storage, &l)?;
            Ok(Response::new())
        }
    }
}
pub fn hookrx_query(d: Deps, _e: Env, m: HookRxQuery) -> StdResult<Binary> {
    match m {
        HookRxQuery::Log {} => to_json_binary(&HOOK_LOG.load(d.storage)?),
    }
}
