//! Incentive scenario: real incentive_factory + incentive (+ real pair/LP and frontend_helper)
//! with the repository's fee-distributor-mock as epoch source. Serves C11 (LP custody),
//! C12 (flows funded and returned) and C13 (weights, shares, claims).

use std::collections::{BTreeMap, BTreeSet};

use cosmwasm_std::{Coin, Decimal256, Uint128};
use serde::{Deserialize, Serialize};
use white_whale_std::pool_network::asset::{Asset, AssetInfo, PairType};
use white_whale_std::pool_network::incentive::{
    ExecuteMsg as IncExec, Flow, FlowIdentifier, PositionsResponse, QueryMsg as IncQuery, QueryPosition, RewardsResponse, RewardsShareResponse,
};

use crate::big::b;
use crate::deploy::*;
use crate::engine::{Cx, Scenario};
use crate::world::{coin, TxResult, World};

pub const DURS: [u64; 3] = [86_400, 15_778_463, 31_556_926];
pub const LP_NATIVE: &str = "ulpnative";
pub const R_NATIVE: &str = "ureward";
pub const F_NATIVE: &str = "ufee";
pub const FLOW_FEE: u128 = 1000;
const FUND: u128 = 1u128 << 110;

#[derive(Clone, Copy, Debug, PartialEq, Eq, Serialize, Deserialize)]
pub enum FeeKind {
    NativeSame,
    NativeDiff,
    Cw20Same,
    Cw20Diff,
    /// native fee, cw20 reward
    NativeFeeCw20Reward,
    /// reward asset is the LP asset itself (custody interplay)
    RewardIsLp,
}

#[derive(Clone, Debug)]
pub struct IncRoot {
    pub label: String,
    pub lp_native: bool,
    pub fee_kind: FeeKind,
    /// (7 = a 60-epoch flow, both stakers claim half-way through it, then 22 epochs without a claim)
    /// setup prefix: 0 = nothing; 1 = alice & bob hold open positions; 2 = + one flow opened by carol and one tick+snapshot;
    /// 3 = like 2, then 5 more epochs (each with a snapshot; alice claims in epoch 3) so that the 4-epoch flow has ended;
    /// 4 = positions, a 130-epoch flow, then 99 epochs with snapshots and nobody claiming (claim cap boundary);
    /// 5 = two stakers from epoch 1, a 20-epoch flow, 5 epochs with snapshots, only the second staker claimed (epoch 5), now epoch 6 with snapshot;
    /// 6 = positions, two concurrent 70-epoch flows, then 55 epochs with snapshots and nobody claiming
    pub prefix: u8,
    /// users keep a large standing cw20 allowance towards the incentive contract (as UIs and the
    /// repository's own tests do) instead of approving exactly the stated amount per call
    pub standing_allowance: bool,
}

pub struct IncScn {
    pub property: String,
    pub roots: Vec<IncRoot>,
    pub users: Vec<String>,
    pub reduced: bool,
}

#[derive(Clone, Debug)]
pub struct IH {
    pub collector: String,
    pub mockdist: String,
    pub ifactory: String,
    pub incentive: String,
    pub helper: String,
    pub pair: Option<PairH>,
    pub lp: AssetInfo,
    pub reward: AssetInfo,
    pub fee: AssetInfo,
    /// an unrelated cw20 token (C12 only): expansions naming it must not fund a flow
    pub foreign: Option<String>,
    pub root: IncRoot,
    /// unit of the alphabet's position and flow amounts: 1, or 10^18 for roots labelled "@1e18-units"
    /// (amounts of an 18-decimals asset: every position and flow exceeds 2^64 base units)
    pub scale: u128,
}

#[derive(Clone, Debug, Hash, PartialEq, Eq, PartialOrd, Ord)]
pub struct FlowG {
    pub creator: String,
    pub funded: u128,
    /// somebody had already claimed in the epoch in which the flow was opened, before it was opened
    pub opened_after_claim: bool,
}

#[derive(Clone, Debug, Hash, Default)]
pub struct IG {
    pub epoch: u64,
    pub open: BTreeMap<(String, u64), u128>,
    pub closed: BTreeMap<String, Vec<u128>>,
    pub flows: BTreeMap<u64, FlowG>,
    pub claimed_in_epoch: BTreeSet<String>,
    pub next_flow_id: u64,
    /// last epoch each user claimed in
    pub last_claimed: BTreeMap<String, u64>,
    /// epoch in which each user first received a position (its first weight record is for the epoch after)
    pub first_stake_epoch: BTreeMap<String, u64>,
    /// the global-weight snapshot of the current epoch has been taken
    pub snap_taken: bool,
    /// a position was closed in the current epoch before that epoch's snapshot was taken
    pub closed_before_snap: bool,
    /// C13: (flow id, epoch) -> what claims have paid out for that epoch of that flow so far (a lower bound: only claims
    /// whose transfers could be attributed to epochs one by one are entered)
    pub paid_by_epoch: BTreeMap<(u64, u64), u128>,
}

#[derive(Clone, Debug, Serialize, Deserialize)]
pub enum IAct {
    Open { user: String, amount: u64, dur: usize, receiver: Option<String> },
    Expand { user: String, amount: u64, dur: usize, receiver: Option<String> },
    BadOpen { user: String, kind: String },
    Close { user: String, dur: usize },
    Withdraw { user: String },
    Helper { user: String, dur: usize },
    /// helper deposit with more native coins attached than the message declares
    HelperOverfunded { user: String, dur: usize },
    Tick,
    Snapshot { user: String },
    Claim { user: String },
    OpenFlow { creator: String, amount: u64, funds: String, end_delta: u64 },
    ExpandFlow { id: u64, amount: u64, funds: String, by: String },
    CloseFlow { id: u64, by: String },
    /// OpenFlow whose start epoch lies `back` epochs in the past (allowed by the contract)
    /// (or, with `ahead`, that many epochs in the future: an expansion before the flow has started is then recorded
    /// under an epoch earlier than the flow's start)
    OpenFlowPast {
        creator: String,
        amount: u64,
        back: u64,
        end_delta: u64,
        #[serde(default)]
        ahead: u64,
    },
    /// every user holding an open position claims, in user order
    ClaimAll,
    /// next epoch, its snapshot, then every staker claims
    Round,
}

pub fn inc_exec(w: &mut World, h: &IH, sender: &str, msg: &IncExec, funds: &[Coin]) -> TxResult {
    w.exec(sender, &h.incentive, msg, funds)
}

/// the flows as the contract stores them (FLOWS map, ordered by (start epoch, id)). The ledger oracles read the stored
/// record: the Flow/Flows queries answer with a *window* of a flow's history (at most 100 epochs from its start, or from the
/// epoch the caller names), so an expansion recorded before a future-dated flow starts, or more than 100 epochs after it
/// started, is legitimately absent from their answer although the contract accounts for it.
pub fn flows_of(w: &World, h: &IH) -> Vec<Flow> {
    // the query names the flows (id and start epoch are never filtered); each stored record is then read by its exact key
    // FLOWS[(start_epoch, flow_id)]. A flow the query does not list would be missed here, so the listing itself is checked
    // against a full storage scan in the invariant `flows_query.lists_the_stored_flows`.
    // (asked for a window far in the future, so that the answer carries no history and stays small)
    let names: Result<Vec<Flow>, String> = w.query(&h.incentive, &IncQuery::Flows { start_epoch: Some(1u64 << 62), end_epoch: None });
    names
        .expect("Flows query")
        .into_iter()
        .map(|f| {
            let mut k: Vec<u8> = vec![0, 5];
            k.extend_from_slice(b"flows");
            k.extend_from_slice(&[0, 8]);
            k.extend_from_slice(&f.start_epoch.to_be_bytes());
            k.extend_from_slice(&f.flow_id.to_be_bytes());
            match w.raw(&h.incentive, &k) {
                Some(v) => serde_json::from_slice::<Flow>(&v).expect("stored flow"),
                None => f,
            }
        })
        .collect()
}

/// every stored flow, by a scan of the contract's whole storage (slow: used by the invariant only)
pub fn flows_scan(w: &World, h: &IH) -> Vec<Flow> {
    let mut v: Vec<Flow> = vec![];
    for (k, val) in w.dump(&h.incentive) {
        if k.len() == 25 && k[0] == 0 && k[1] == 5 && &k[2..7] == b"flows" && k[7] == 0 && k[8] == 8 {
            v.push(serde_json::from_slice::<Flow>(&val).expect("stored flow"));
        }
    }
    v
}

/// what the Flows query (default window) answers
pub fn flows_query(w: &World, h: &IH) -> Vec<Flow> {
    // (the contract answers with a bare Vec<Flow>, not the declared FlowsResponse)
    let r: Result<Vec<Flow>, String> = w.query(&h.incentive, &IncQuery::Flows { start_epoch: None, end_epoch: None });
    r.expect("Flows query")
}

/// current funded amount of a flow as the contract sees it (latest expansion if any)
pub fn flow_amount(f: &Flow) -> u128 {
    f.asset_history.iter().next_back().map(|(_, (a, _))| a.u128()).unwrap_or(f.flow_asset.amount.u128())
}

pub fn positions_of(w: &World, h: &IH, user: &str) -> Result<(BTreeMap<u64, u128>, Vec<u128>), String> {
    let r: PositionsResponse = w.query(&h.incentive, &IncQuery::Positions { address: user.to_string() })?;
    let mut open = BTreeMap::new();
    let mut closed = vec![];
    for p in r.positions {
        match p {
            QueryPosition::OpenPosition { amount, unbonding_duration, .. } => {
                *open.entry(unbonding_duration).or_insert(0) += amount.u128();
            }
            QueryPosition::ClosedPosition { amount, .. } => closed.push(amount.u128()),
        }
    }
    closed.sort();
    Ok((open, closed))
}

/// raw GLOBAL_WEIGHT and ADDRESS_WEIGHT entries from the contract's storage
pub fn raw_weights(w: &World, h: &IH) -> (u128, BTreeMap<String, u128>) {
    let mut global = 0u128;
    let mut per = BTreeMap::new();
    for (k, v) in w.dump(&h.incentive) {
        if k == b"global_weight" {
            global = serde_json::from_slice::<Uint128>(&v).map(|x| x.u128()).unwrap_or(u128::MAX);
        } else if k.len() > 2 + 14 && &k[2..16] == b"address_weight" && k[0] == 0 && k[1] == 14 {
            let addr = String::from_utf8_lossy(&k[16..]).to_string();
            let val = serde_json::from_slice::<Uint128>(&v).map(|x| x.u128()).unwrap_or(u128::MAX);
            per.insert(addr, val);
        }
    }
    (global, per)
}

impl IncScn {
    pub fn deploy(&self, r: &IncRoot, w: &mut World) -> IH {
        let collector = w
            .instantiate(w.codes.fee_collector, OWNER, &white_whale_std::fee_collector::InstantiateMsg {}, &[], "fee_collector", Some(OWNER))
            .expect("collector");
        let mockdist = w.instantiate(w.codes.fee_distributor_mock, OWNER, &fee_distributor_mock::msg::InstantiateMsg {}, &[], "mockdist", None).expect("mock distributor");
        // LP asset
        let (pair, lp) = if r.lp_native {
            (None, native(LP_NATIVE))
        } else {
            let hub = PoolHub {
                collector: collector.clone(),
                factory: w
                    .instantiate(
                        w.codes.factory,
                        OWNER,
                        &white_whale_std::pool_network::factory::InstantiateMsg { pair_code_id: w.codes.pair, trio_code_id: w.codes.trio, token_code_id: w.codes.token, fee_collector_addr: collector.clone() },
                        &[],
                        "pool_factory",
                        Some(OWNER),
                    )
                    .expect("factory"),
            };
            for d in ["uwhale", "uluna"] {
                w.exec(OWNER, &hub.factory, &white_whale_std::pool_network::factory::ExecuteMsg::AddNativeTokenDecimals { denom: d.to_string(), decimals: 6 }, &[]).unwrap();
            }
            let p = if r.label.contains("twin-ids") {
                // a pair of a cw20 token and a bank coin whose denom is spelled exactly like that token's contract address
                let t = w.new_cw20("tcc", 6, &[], OWNER);
                w.exec(OWNER, &hub.factory, &white_whale_std::pool_network::factory::ExecuteMsg::AddNativeTokenDecimals { denom: t.clone(), decimals: 6 }, &[]).expect("twin decimals");
                create_pair(w, &hub, [native(&t), token(&t)], Fee3::new(0, 0, 0).pool(), PairType::ConstantProduct).expect("twin pair")
            } else {
                create_pair(w, &hub, [native("uwhale"), native("uluna")], Fee3::new(0, 0, 0).pool(), PairType::ConstantProduct).expect("pair")
            };
            let lp = token(&p.lp);
            (Some(p), lp)
        };
        let rtok = || -> AssetInfo { native(R_NATIVE) };
        let _ = rtok;
        let (fee, reward) = match r.fee_kind {
            FeeKind::NativeSame => (native(R_NATIVE), native(R_NATIVE)),
            FeeKind::NativeDiff => (native(F_NATIVE), native(R_NATIVE)),
            FeeKind::Cw20Same => {
                let t = token(&w.new_cw20("rtok", 6, &[], OWNER));
                (t.clone(), t)
            }
            FeeKind::Cw20Diff => (token(&w.new_cw20("ftok", 6, &[], OWNER)), token(&w.new_cw20("rtok", 6, &[], OWNER))),
            FeeKind::NativeFeeCw20Reward => (native(F_NATIVE), token(&w.new_cw20("rtok", 6, &[], OWNER))),
            FeeKind::RewardIsLp => (native(F_NATIVE), lp.clone()),
        };
        let ifactory = w
            .instantiate(
                w.codes.incentive_factory,
                OWNER,
                &white_whale_std::pool_network::incentive_factory::InstantiateMsg {
                    fee_collector_addr: collector.clone(),
                    fee_distributor_addr: mockdist.clone(),
                    create_flow_fee: asset(&fee, FLOW_FEE),
                    max_concurrent_flows: 3,
                    incentive_code_id: w.codes.incentive,
                    max_flow_epoch_buffer: 14,
                    min_unbonding_duration: 86_400,
                    max_unbonding_duration: 31_556_926,
                },
                &[],
                "incentive_factory",
                Some(OWNER),
            )
            .expect("incentive factory");
        w.exec(OWNER, &ifactory, &white_whale_std::pool_network::incentive_factory::ExecuteMsg::CreateIncentive { lp_asset: lp.clone() }, &[]).expect("create incentive");
        let inc: white_whale_std::pool_network::incentive_factory::IncentiveResponse =
            w.query(&ifactory, &white_whale_std::pool_network::incentive_factory::QueryMsg::Incentive { lp_asset: lp.clone() }).expect("incentive query");
        let incentive = inc.expect("incentive exists").to_string();
        let helper = w
            .instantiate(w.codes.frontend_helper, OWNER, &white_whale_std::pool_network::frontend_helper::InstantiateMsg { incentive_factory: ifactory.clone() }, &[], "helper", Some(OWNER))
            .expect("helper");
        // funds
        let mut everyone: Vec<String> = self.users.clone();
        everyone.push(MALLORY.to_string());
        for u in &everyone {
            for a in [&reward, &fee] {
                if *a != lp || r.lp_native {
                    fund(w, a, u, FUND);
                }
            }
            if let Some(p) = &pair {
                fund(w, &p.assets[0], u, FUND);
                fund(w, &p.assets[1], u, FUND);
            } else {
                fund(w, &lp, u, FUND);
            }
        }
        if let Some(p) = &pair {
            // everybody provides liquidity so that they hold LP tokens
            for (i, u) in everyone.iter().enumerate() {
                let amt = 50_000_000u128 + (i as u128) * 1_000_000;
                pair_provide(w, p, u, [amt, amt], None, None).expect("seed liquidity");
            }
        }
        if r.standing_allowance {
            if let AssetInfo::Token { contract_addr } = &lp {
                for u in &everyone {
                    w.cw20_allow(contract_addr, u, &incentive, 1u128 << 100);
                }
            }
        }
        if self.property == "C12" {
            if let AssetInfo::NativeToken { denom } = &reward {
                for u in &everyone {
                    w.mint_native(u, FUND, &denom.to_uppercase());
                }
            }
        }
        let foreign = if self.property == "C12" {
            let t = w.new_cw20("xtok", 6, &[], OWNER);
            for u in &everyone {
                fund(w, &token(&t), u, FUND);
            }
            Some(t)
        } else {
            None
        };
        IH { collector, mockdist, ifactory, incentive, helper, pair, lp, reward, fee, foreign, root: r.clone(), scale: if r.label.contains("@1e18-units") { 10u128.pow(18) } else { 1 } }
    }

    /// C13, "no single claim pays a user more for an epoch than that epoch's emission": a claim sends one transfer per
    /// (flow, epoch) with a non-zero reward, in epoch order. When there is exactly one flow with a native reward and the
    /// number of transfers equals the number of epochs the claim can have paid for, the transfers are attributed to
    /// epochs one by one; each must not exceed what a linear flow can emit in that epoch: the funds not yet paid out for
    /// earlier epochs, spread evenly over the epochs that remain: floor((amount_e - paid(<e)) / (end_e - e)).
    #[allow(clippy::too_many_arguments)]
    fn oracle_per_epoch_payouts(&self, cx: &mut Cx, h: &IH, g: &mut IG, user: &str, resp: &cw_multi_test::AppResponse, flows_before: &[Flow], flows_after: &[Flow]) {
        let denom = match &h.reward {
            AssetInfo::NativeToken { denom } => denom.clone(),
            _ => return,
        };
        if h.reward == h.lp || flows_before.len() != 1 || flows_after.len() != 1 || flows_before[0].flow_id != flows_after[0].flow_id {
            cx.count("per_epoch:not_single_flow");
            return;
        }
        let f = &flows_after[0];
        let pays: Vec<u128> = resp
            .events
            .iter()
            .filter(|ev| ev.ty == "transfer" && ev.attributes.iter().any(|a| a.key == "recipient" && a.value == user) && ev.attributes.iter().any(|a| a.key == "sender" && a.value == h.incentive))
            .filter_map(|ev| ev.attributes.iter().find(|a| a.key == "amount").and_then(|a| a.value.strip_suffix(denom.as_str()).and_then(|x| x.parse::<u128>().ok())))
            .collect();
        let latest_end = f.asset_history.iter().next_back().map(|(_, (_, en))| *en).unwrap_or(f.end_epoch);
        let first_weight = g.first_stake_epoch.get(user).map(|e| e + 1);
        let from0 = match g.last_claimed.get(user) {
            Some(e) => e + 1,
            None => first_weight.map(|fw| fw.min(f.start_epoch)).unwrap_or(0),
        };
        let lo = from0.max(f.start_epoch).max(first_weight.unwrap_or(u64::MAX));
        let hi = g.epoch.min(from0.saturating_add(99)).min(latest_end.saturating_sub(1));
        let cands: Vec<u64> = if lo <= hi { (lo..=hi).collect() } else { vec![] };
        if pays.len() != cands.len() {
            cx.count("per_epoch:unattributed");
            return;
        }
        cx.count("per_epoch:attributed_claims");
        let sig = if g.flows.get(&f.flow_id).map(|x| x.opened_after_claim).unwrap_or(false) { "flow-opened-after-a-claim-in-its-first-epoch" } else { "" };
        for (e, pay) in cands.iter().zip(pays.iter()) {
            let (amt, end) = f.asset_history.range(..=*e).next_back().map(|(_, (a, en))| (a.u128(), *en)).unwrap_or((f.flow_asset.amount.u128(), f.end_epoch));
            if *e >= end {
                continue;
            }
            let paid_before: u128 = g.paid_by_epoch.range((f.flow_id, 0)..(f.flow_id, *e)).map(|(_, v)| *v).sum();
            let bound = amt.saturating_sub(paid_before) / (end - *e) as u128;
            cx.count("per_epoch:epochs_checked");
            cx.check_sig("claim.at_most_epoch_emission", sig, *pay <= bound, || {
                format!("flow {} (funded {}, ends {}): the claim by {} paid {} for epoch {} but {} had already been paid out for earlier epochs, so that epoch can emit at most ({} - {})/{} = {}", f.flow_id, amt, end, user, pay, e, paid_before, amt, paid_before, end - *e, bound)
            });
            *g.paid_by_epoch.entry((f.flow_id, *e)).or_insert(0) += *pay;
        }
    }

    fn lp_funds(&self, h: &IH, w: &mut World, user: &str, amount: u128) -> Vec<Coin> {
        match &h.lp {
            AssetInfo::NativeToken { denom } => {
                if amount > 0 {
                    vec![coin(amount, denom)]
                } else {
                    vec![]
                }
            }
            AssetInfo::Token { contract_addr } => {
                if !h.root.standing_allowance {
                    set_allowance(w, contract_addr, user, &h.incentive, amount);
                }
                vec![]
            }
        }
    }
}

/// set the cw20 allowance owner->spender to exactly `amount`
pub fn set_allowance(w: &mut World, token: &str, owner: &str, spender: &str, amount: u128) {
    let cur: cw20::AllowanceResponse = w.query(token, &cw20::Cw20QueryMsg::Allowance { owner: owner.to_string(), spender: spender.to_string() }).unwrap();
    let cur = cur.allowance.u128();
    if cur > amount {
        let _ = w.exec(owner, token, &cw20::Cw20ExecuteMsg::DecreaseAllowance { spender: spender.to_string(), amount: Uint128::new(cur - amount), expires: None }, &[]);
    } else if cur < amount {
        w.cw20_allow(token, owner, spender, amount - cur);
    }
}

fn bal(w: &World, a: &AssetInfo, who: &str) -> u128 {
    info_balance(w, a, who)
}

impl Scenario for IncScn {
    type Action = IAct;
    type Ghost = IG;
    type Handles = IH;

    fn name(&self) -> String {
        format!("incentive-{}", self.property)
    }
    fn root_labels(&self) -> Vec<String> {
        self.roots.iter().map(|r| r.label.clone()).collect()
    }

    fn setup(&self, root: usize, w: &mut World) -> (IH, IG) {
        let r = &self.roots[root];
        let h = self.deploy(r, w);
        let mut g = IG { epoch: 1, next_flow_id: 1, ..Default::default() };
        let mut cx = Cx::default();
        if r.prefix >= 1 {
            // (prefix 5: both stakers use the minimum duration so that their weights are equal)
            let a = self.users[0].clone();
            let bb = self.users[1].clone();
            self.step(w, &h, &mut g, &IAct::Open { user: a, amount: 1000, dur: 0, receiver: None }, &mut cx);
            self.step(w, &h, &mut g, &IAct::Open { user: bb, amount: 1000, dur: 1, receiver: None }, &mut cx);
        }
        if r.prefix == 2 || r.prefix == 3 {
            let c = self.users.last().unwrap().clone();
            self.step(w, &h, &mut g, &IAct::OpenFlow { creator: c, amount: 10_000, funds: "exact".into(), end_delta: 4 }, &mut cx);
            self.step(w, &h, &mut g, &IAct::Tick, &mut cx);
            self.step(w, &h, &mut g, &IAct::Snapshot { user: MALLORY.into() }, &mut cx);
        }
        if r.prefix == 3 {
            for e in 0..5 {
                self.step(w, &h, &mut g, &IAct::Tick, &mut cx);
                self.step(w, &h, &mut g, &IAct::Snapshot { user: MALLORY.into() }, &mut cx);
                if e == 0 {
                    let a = self.users[0].clone();
                    self.step(w, &h, &mut g, &IAct::Claim { user: a }, &mut cx);
                }
            }
        }
        if r.prefix == 5 {
            let c = self.users.last().unwrap().clone();
            self.step(w, &h, &mut g, &IAct::OpenFlow { creator: c, amount: 10_000, funds: "exact".into(), end_delta: 20 }, &mut cx);
            for e in 0..5 {
                self.step(w, &h, &mut g, &IAct::Tick, &mut cx);
                self.step(w, &h, &mut g, &IAct::Snapshot { user: MALLORY.into() }, &mut cx);
                if e == 3 {
                    let bb = self.users[1].clone();
                    self.step(w, &h, &mut g, &IAct::Claim { user: bb }, &mut cx);
                }
            }
        }
        if r.prefix == 6 {
            let c = self.users.last().unwrap().clone();
            self.step(w, &h, &mut g, &IAct::OpenFlow { creator: c.clone(), amount: 7_000_000, funds: "exact".into(), end_delta: 70 }, &mut cx);
            self.step(w, &h, &mut g, &IAct::OpenFlow { creator: c, amount: 7_000_000, funds: "exact".into(), end_delta: 70 }, &mut cx);
            for _ in 0..55 {
                self.step(w, &h, &mut g, &IAct::Tick, &mut cx);
                self.step(w, &h, &mut g, &IAct::Snapshot { user: MALLORY.into() }, &mut cx);
            }
        }
        if r.prefix == 7 {
            // a 60-epoch flow; both stakers claim half-way through it, then 22 epochs pass without any claim
            let c = self.users.last().unwrap().clone();
            self.step(w, &h, &mut g, &IAct::OpenFlow { creator: c, amount: 6_000_000, funds: "exact".into(), end_delta: 60 }, &mut cx);
            for e in 0..52 {
                self.step(w, &h, &mut g, &IAct::Tick, &mut cx);
                self.step(w, &h, &mut g, &IAct::Snapshot { user: MALLORY.into() }, &mut cx);
                if e == 29 {
                    for u in [self.users[0].clone(), self.users[1].clone()] {
                        self.step(w, &h, &mut g, &IAct::Claim { user: u }, &mut cx);
                    }
                }
            }
        }
        if r.prefix == 4 {
            let c = self.users.last().unwrap().clone();
            self.step(w, &h, &mut g, &IAct::OpenFlow { creator: c, amount: 1_300_000, funds: "exact".into(), end_delta: 130 }, &mut cx);
            for _ in 0..99 {
                self.step(w, &h, &mut g, &IAct::Tick, &mut cx);
                self.step(w, &h, &mut g, &IAct::Snapshot { user: MALLORY.into() }, &mut cx);
            }
        }
        // violations of the property's own oracles during the setup prefix would be reported by the
        // explorer at the root (invariants) or on the first transitions; the prefix itself is not judged
        // except for C11, whose roots must be clean
        assert!(cx.violations.is_empty() || self.property != "C11", "root setup violates oracles: {:?}", cx.violations);
        (h, g)
    }

    fn actions(&self, w: &World, h: &IH, g: &IG, _depth: usize) -> Vec<IAct> {
        let mut v = vec![];
        let p = self.property.as_str();
        let us = &self.users;
        let positions = |v: &mut Vec<IAct>, amounts: &[u64], durs: &[usize], with_receiver: bool| {
            for (ui, u) in us.iter().enumerate() {
                for &d in durs {
                    let has = g.open.contains_key(&(u.clone(), DURS[d]));
                    let amts: &[u64] = if ui == 0 { amounts } else { &amounts[..1] };
                    for &a in amts {
                        if has {
                            v.push(IAct::Expand { user: u.clone(), amount: a, dur: d, receiver: None });
                        } else {
                            v.push(IAct::Open { user: u.clone(), amount: a, dur: d, receiver: None });
                        }
                    }
                    if has {
                        v.push(IAct::Close { user: u.clone(), dur: d });
                    }
                }
                if g.closed.get(u).map(|c| !c.is_empty()).unwrap_or(false) || ui == 0 {
                    v.push(IAct::Withdraw { user: u.clone() });
                }
            }
            if with_receiver && us.len() >= 2 {
                let (a, bb) = (us[0].clone(), us[1].clone());
                let has = g.open.contains_key(&(bb.clone(), DURS[0]));
                if has {
                    v.push(IAct::Expand { user: a, amount: 7, dur: 0, receiver: Some(bb) });
                } else {
                    v.push(IAct::Open { user: a, amount: 7, dur: 0, receiver: Some(bb) });
                }
            }
        };
        match p {
            "C11" => {
                positions(&mut v, &[1000, 1, 7], if self.reduced { &[0, 2] } else { &[0, 1, 2] }, true);
                for k in ["less_than_stated", "more_than_stated", "zero", "stated_but_nothing_sent"] {
                    v.push(IAct::BadOpen { user: us[0].clone(), kind: k.to_string() });
                }
                if matches!(h.lp, AssetInfo::Token { .. }) && !h.root.standing_allowance {
                    // cw20 LP: a position "paid" with bank coins spelled like the LP token's contract address, no allowance
                    v.push(IAct::BadOpen { user: us[0].clone(), kind: "addr_coin".to_string() });
                }
                if h.pair.is_some() {
                    v.push(IAct::Helper { user: us[0].clone(), dur: 0 });
                    v.push(IAct::Helper { user: us[1].clone(), dur: 2 });
                    // the same pair and duration as the first user's deposit, by somebody else (back-to-back helper deposits
                    // that differ in nothing but the depositor)
                    v.push(IAct::Helper { user: us[1].clone(), dur: 0 });
                    if h.pair.as_ref().unwrap().assets.iter().any(|a| matches!(a, AssetInfo::NativeToken { .. })) {
                        v.push(IAct::HelperOverfunded { user: us[1].clone(), dur: 0 });
                    }
                }
                v.push(IAct::Tick);
                v.push(IAct::Snapshot { user: MALLORY.into() });
                for u in us.iter().take(2) {
                    v.push(IAct::Claim { user: u.clone() });
                }
                if h.root.fee_kind == FeeKind::RewardIsLp && g.flows.is_empty() {
                    v.push(IAct::OpenFlow { creator: us[us.len() - 1].clone(), amount: 5000, funds: "exact".into(), end_delta: 3 });
                }
            }
            "C12" if h.root.prefix == 5 => {
                // long-history mode: composite rounds so that whole flow lifetimes are within the depth bound
                if g.flows.len() < 3 {
                    v.push(IAct::OpenFlowPast { creator: MALLORY.into(), amount: 10_000, back: 5, end_delta: 5, ahead: 0 });
                    v.push(IAct::OpenFlow { creator: MALLORY.into(), amount: 10_000, funds: "exact".into(), end_delta: 4 });
                }
                v.push(IAct::ClaimAll);
                v.push(IAct::Round);
                v.push(IAct::Claim { user: us[0].clone() });
                for (id, f) in g.flows.iter() {
                    v.push(IAct::ExpandFlow { id: *id, amount: 5000, funds: "exact".into(), by: f.creator.clone() });
                    // an expansion much larger than the original amount: claims soon exceed what the flow was opened with
                    v.push(IAct::ExpandFlow { id: *id, amount: 1_000_000, funds: "exact".into(), by: f.creator.clone() });
                    v.push(IAct::CloseFlow { id: *id, by: f.creator.clone() });
                }
            }
            "C12" => {
                let creators: Vec<String> = vec![us[0].clone(), us[1].clone()];
                if g.flows.len() < 3 {
                    for (ci, c) in creators.iter().enumerate() {
                        let amts: &[u64] = if ci == 0 { &[999, 1000, 2000, 1_001_000] } else { &[3000] };
                        for &a in amts {
                            let fk: &[&str] = if ci == 0 && a >= 2000 { &["exact", "fee_only", "amount_only", "over", "nothing"] } else { &["exact"] };
                            for f in fk {
                                v.push(IAct::OpenFlow { creator: c.clone(), amount: a, funds: f.to_string(), end_delta: 3 });
                            }
                        }
                        if ci == 1 {
                            // a flow that only starts two epochs from now: expanding it before then is recorded ahead of its start
                            v.push(IAct::OpenFlowPast { creator: c.clone(), amount: 3000, back: 0, end_delta: 6, ahead: 2 });
                            // a flow that ends with the next epoch, so that its last epoch is within reach
                            v.push(IAct::OpenFlow { creator: c.clone(), amount: 3000, funds: "exact".into(), end_delta: 1 });
                        }
                    }
                }
                for (id, f) in g.flows.iter() {
                    for (a, fk) in [(1u64, "exact"), (1_000_000, "exact"), (5000, "short"), (5000, "nothing")] {
                        v.push(IAct::ExpandFlow { id: *id, amount: a, funds: fk.to_string(), by: f.creator.clone() });
                    }
                    v.push(IAct::ExpandFlow { id: *id, amount: 777, funds: "exact".into(), by: MALLORY.into() });
                    // "@end": the expansion names the flow's current end epoch explicitly instead of leaving it open
                    v.push(IAct::ExpandFlow { id: *id, amount: 5000, funds: "exact@end".into(), by: f.creator.clone() });
                    // "@far": the expansion moves the end more than 180 epochs past the start (the flow is re-based)
                    v.push(IAct::ExpandFlow { id: *id, amount: 4000, funds: "exact@far".into(), by: f.creator.clone() });
                    // the message names an unrelated cw20 token (approved by the sender) instead of the flow's reward asset
                    v.push(IAct::ExpandFlow { id: *id, amount: 6000, funds: "foreign_cw20".into(), by: f.creator.clone() });
                    // native rewards: the message names (and funds) the reward denom in upper case, which is a different coin
                    if h.reward.is_native_token() {
                        v.push(IAct::ExpandFlow { id: *id, amount: 6000, funds: "case_variant_denom".into(), by: f.creator.clone() });
                    }
                    v.push(IAct::CloseFlow { id: *id, by: f.creator.clone() });
                    v.push(IAct::CloseFlow { id: *id, by: OWNER.into() });
                    v.push(IAct::CloseFlow { id: *id, by: MALLORY.into() });
                }
                // positions and claims so that flows get claimed
                let staker = us[us.len() - 1].clone();
                if !g.open.contains_key(&(staker.clone(), DURS[0])) {
                    v.push(IAct::Open { user: staker.clone(), amount: 1000, dur: 0, receiver: None });
                }
                v.push(IAct::Tick);
                v.push(IAct::Snapshot { user: MALLORY.into() });
                v.push(IAct::Claim { user: staker });
            }
            _ => {
                // C13
                positions(&mut v, if self.reduced { &[1, 1000] } else { &[1, 2, 3, 1000] }, if self.reduced { &[0, 1] } else { &[0, 1, 2] }, true);
                v.push(IAct::Tick);
                v.push(IAct::Snapshot { user: MALLORY.into() });
                for u in us.iter() {
                    v.push(IAct::Claim { user: u.clone() });
                }
                if g.flows.len() < 2 {
                    v.push(IAct::OpenFlow { creator: MALLORY.into(), amount: 11_000, funds: "exact".into(), end_delta: 4 });
                }
                for (id, _) in g.flows.iter() {
                    v.push(IAct::ExpandFlow { id: *id, amount: 5000, funds: "exact".into(), by: MALLORY.into() });
                }
            }
        }
        let _ = w;
        v
    }

    fn step(&self, w: &mut World, h: &IH, g: &mut IG, a: &IAct, cx: &mut Cx) {
        match a {
            IAct::ClaimAll | IAct::Round => {
                if matches!(a, IAct::Round) {
                    self.step(w, h, g, &IAct::Tick, cx);
                    self.step(w, h, g, &IAct::Snapshot { user: MALLORY.into() }, cx);
                }
                let stakers: Vec<String> = self.users.iter().filter(|u| g.open.keys().any(|(x, _)| x == *u)).cloned().collect();
                for u in stakers {
                    self.step(w, h, g, &IAct::Claim { user: u }, cx);
                }
                return;
            }
            IAct::OpenFlowPast { creator, amount, back, end_delta, ahead } => {
                let declared = *amount as u128 * h.scale;
                let same = h.fee == h.reward;
                let mut coins: Vec<Coin> = vec![];
                for (ai, amt) in [(&h.reward, declared), (&h.fee, if same { 0 } else { FLOW_FEE })] {
                    match ai {
                        AssetInfo::NativeToken { denom } => {
                            if amt > 0 {
                                coins.push(coin(amt, denom));
                            }
                        }
                        AssetInfo::Token { contract_addr } => {
                            if amt > 0 {
                                set_allowance(w, contract_addr, creator, &h.incentive, amt);
                            }
                        }
                    }
                }
                coins.sort_by(|x, y| x.denom.cmp(&y.denom));
                let ib = bal(w, &h.reward, &h.incentive);
                let start = (g.epoch.saturating_sub(*back) + *ahead).max(1);
                let r = inc_exec(
                    w,
                    h,
                    creator,
                    &IncExec::OpenFlow { start_epoch: Some(start), end_epoch: Some(g.epoch + end_delta), curve: None, flow_asset: asset(&h.reward, declared), flow_label: None },
                    &coins,
                );
                if r.is_ok() {
                    cx.count("openflow:ok");
                    cx.count(if *ahead > 0 { "openflow:start_in_the_future" } else { "openflow:start_in_the_past" });
                    let received = bal(w, &h.reward, &h.incentive) - ib;
                    let id = g.next_flow_id;
                    g.next_flow_id += 1;
                    g.flows.insert(id, FlowG { creator: creator.clone(), funded: received, opened_after_claim: !g.claimed_in_epoch.is_empty() });
                } else {
                    cx.count("openflow:rejected");
                }
                for ai in [&h.reward, &h.fee] {
                    if let AssetInfo::Token { contract_addr } = ai {
                        set_allowance(w, contract_addr, creator, &h.incentive, 0);
                    }
                }
                return;
            }
            _ => {}
        }
        let c11 = self.property == "C11";
        let c12 = self.property == "C12";
        let c13 = self.property == "C13";
        let mut everyone: Vec<String> = self.users.clone();
        everyone.push(MALLORY.to_string());
        everyone.push(OWNER.to_string());
        match a {
            IAct::Open { user, amount, dur, receiver } | IAct::Expand { user, amount, dur, receiver } => {
                let is_open = matches!(a, IAct::Open { .. });
                let amt = *amount as u128 * h.scale;
                let funds = self.lp_funds(h, w, user, amt);
                let ib = bal(w, &h.lp, &h.incentive);
                let ub = bal(w, &h.lp, user);
                let msg = if is_open {
                    IncExec::OpenPosition { amount: Uint128::new(amt), unbonding_duration: DURS[*dur], receiver: receiver.clone() }
                } else {
                    IncExec::ExpandPosition { amount: Uint128::new(amt), unbonding_duration: DURS[*dur], receiver: receiver.clone() }
                };
                let r = inc_exec(w, h, user, &msg, &funds);
                let owner = receiver.clone().unwrap_or(user.clone());
                match &r {
                    Ok(_) => {
                        cx.count(if is_open { "open:ok" } else { "expand:ok" });
                        if receiver.is_some() {
                            cx.count("position:for_receiver");
                        }
                        if c11 {
                            cx.check("position.created_only_if_stated_amount_received", bal(w, &h.lp, &h.incentive) - ib == amt && ub - bal(w, &h.lp, user) == amt, || {
                                format!("{:?}: incentive LP balance +{} user -{} but stated amount {}", a, bal(w, &h.lp, &h.incentive) - ib, ub - bal(w, &h.lp, user), amt)
                            });
                        }
                        let e = g.epoch;
                        g.first_stake_epoch.entry(owner.clone()).or_insert(e);
                        *g.open.entry((owner, DURS[*dur])).or_insert(0) += amt;
                    }
                    Err(e) => {
                        cx.count(if is_open { "open:rejected" } else { "expand:rejected" });
                        cx.note(|| format!("rejected: {}", e.msg()));
                        if let AssetInfo::Token { contract_addr } = &h.lp {
                            if !h.root.standing_allowance {
                                set_allowance(w, contract_addr, user, &h.incentive, 0);
                            }
                        }
                    }
                }
            }
            IAct::BadOpen { user, kind } => {
                if h.root.standing_allowance {
                    return;
                }
                let stated: u128 = 500;
                let sent: u128 = match kind.as_str() {
                    "less_than_stated" => 499,
                    "more_than_stated" => 501,
                    _ => 0,
                };
                let stated = if kind == "zero" { 0 } else { stated };
                let mut funds = self.lp_funds(h, w, user, sent);
                if kind == "addr_coin" {
                    if let AssetInfo::Token { contract_addr } = &h.lp {
                        w.mint_native(user, stated, contract_addr);
                        funds = vec![coin(stated, contract_addr)];
                    }
                }
                let ib = bal(w, &h.lp, &h.incentive);
                // use a duration the user has no position in, if any
                let dur = DURS.iter().find(|d| !g.open.contains_key(&(user.clone(), **d))).cloned().unwrap_or(DURS[0]);
                let is_expand = g.open.contains_key(&(user.clone(), dur));
                let msg = if is_expand {
                    IncExec::ExpandPosition { amount: Uint128::new(stated), unbonding_duration: dur, receiver: None }
                } else {
                    IncExec::OpenPosition { amount: Uint128::new(stated), unbonding_duration: dur, receiver: None }
                };
                let r = inc_exec(w, h, user, &msg, &funds);
                cx.count("badopen:attempt");
                match &r {
                    Ok(_) => {
                        // cw20: an allowance larger than stated is fine as long as exactly `stated` is pulled
                        let got = bal(w, &h.lp, &h.incentive) - ib;
                        cx.check("position.created_only_if_stated_amount_received", got == stated && stated > 0, || format!("position of {} accepted with {} received (sent/allowed {})", stated, got, sent));
                        let e = g.epoch;
                        g.first_stake_epoch.entry(user.clone()).or_insert(e);
                        *g.open.entry((user.clone(), dur)).or_insert(0) += stated;
                    }
                    Err(_) => {
                        if kind == "addr_coin" {
                            if let AssetInfo::Token { contract_addr } = &h.lp {
                                let _ = w.exec_cosmos(user, cosmwasm_std::BankMsg::Burn { amount: vec![coin(stated, contract_addr)] }.into());
                            }
                        }
                    }
                }
                if let AssetInfo::Token { contract_addr } = &h.lp {
                    set_allowance(w, contract_addr, user, &h.incentive, 0);
                }
            }
            IAct::Close { user, dur } => {
                let r = inc_exec(w, h, user, &IncExec::ClosePosition { unbonding_duration: DURS[*dur] }, &[]);
                match &r {
                    Ok(_) => {
                        cx.count("close:ok");
                        if !g.snap_taken {
                            g.closed_before_snap = true;
                        }
                        if let Some(amt) = g.open.remove(&(user.clone(), DURS[*dur])) {
                            let e = g.closed.entry(user.clone()).or_default();
                            e.push(amt);
                            e.sort();
                        }
                    }
                    Err(e) => {
                        cx.count("close:rejected");
                        cx.note(|| format!("rejected: {}", e.msg()));
                    }
                }
            }
            IAct::Withdraw { user } => {
                let before: Vec<u128> = everyone.iter().map(|u| bal(w, &h.lp, u)).collect();
                let r = inc_exec(w, h, user, &IncExec::Withdraw {}, &[]);
                let want: u128 = g.closed.get(user).map(|c| c.iter().sum()).unwrap_or(0);
                match &r {
                    Ok(_) => {
                        cx.count("withdraw:ok");
                        if want > 0 {
                            cx.count("withdraw:paid");
                        }
                        let after: Vec<u128> = everyone.iter().map(|u| bal(w, &h.lp, u)).collect();
                        if c11 {
                            for (i, u) in everyone.iter().enumerate() {
                                let d = after[i] as i128 - before[i] as i128;
                                let exp = if u == user { want as i128 } else { 0 };
                                cx.check("withdraw.returns_exactly_own_closed_positions", d == exp, || format!("withdraw by {}: balance of {} changed by {} (closed positions of the withdrawer sum to {})", user, u, d, want));
                            }
                        }
                        g.closed.remove(user);
                    }
                    Err(e) => {
                        cx.count("withdraw:rejected");
                        if c11 {
                            cx.check("withdraw.returns_exactly_own_closed_positions", want == 0, || format!("withdraw by {} rejected ({}) although closed positions sum to {}", user, e.msg(), want));
                        }
                    }
                }
            }
            IAct::Helper { user, dur } => {
                let p = h.pair.as_ref().unwrap();
                let has_cw20 = p.assets.iter().any(|a| matches!(a, AssetInfo::Token { .. }));
                // (a pool with a cw20 side gets a lopsided deposit: more of the token than of the coin)
                let d = if has_cw20 { [1000u128, 3000u128] } else { [1000u128, 1000u128] };
                let assets = [asset(&p.assets[0], d[0]), asset(&p.assets[1], d[1])];
                for (i, a) in p.assets.iter().enumerate() {
                    if let AssetInfo::Token { contract_addr } = a {
                        w.cw20_allow(contract_addr, user, &h.helper, d[i]);
                    }
                }
                let lp_before = bal(w, &h.lp, &h.incentive);
                let r = w.exec(
                    user,
                    &h.helper,
                    &white_whale_std::pool_network::frontend_helper::ExecuteMsg::Deposit { pair_address: p.addr.clone(), assets: assets.clone(), slippage_tolerance: None, unbonding_duration: DURS[*dur] },
                    &funds_for(&assets),
                );
                match &r {
                    Ok(_) => {
                        cx.count("helper:ok");
                        let got = bal(w, &h.lp, &h.incentive) - lp_before;
                        let e = g.epoch;
                        g.first_stake_epoch.entry(user.clone()).or_insert(e);
                        *g.open.entry((user.clone(), DURS[*dur])).or_insert(0) += got;
                        if c11 {
                            cx.check("helper.position_amount_is_lp_minted", got > 0, || "helper deposit created no position".to_string());
                        }
                    }
                    Err(e) => {
                        cx.count("helper:rejected");
                        cx.note(|| format!("rejected: {}", e.msg()));
                        for a in p.assets.iter() {
                            if let AssetInfo::Token { contract_addr } = a {
                                let _ = w.exec(user, contract_addr, &cw20::Cw20ExecuteMsg::DecreaseAllowance { spender: h.helper.clone(), amount: Uint128::new(u128::MAX), expires: None }, &[]);
                            }
                        }
                    }
                }
                if c11 {
                    let held = [bal(w, &p.assets[0], &h.helper), bal(w, &p.assets[1], &h.helper), bal(w, &h.lp, &h.helper)];
                    cx.check("helper.retains_nothing", held == [0, 0, 0], || format!("frontend helper holds {:?} (asset0, asset1, LP) after a deposit call", held));
                }
            }
            IAct::HelperOverfunded { user, dur } => {
                let p = h.pair.as_ref().unwrap();
                let d = [1000u128, 1000u128];
                let assets = [asset(&p.assets[0], d[0]), asset(&p.assets[1], d[1])];
                let over = [asset(&p.assets[0], d[0] + 500), asset(&p.assets[1], d[1] + 500)];
                let lp_before = bal(w, &h.lp, &h.incentive);
                let r = w.exec(
                    user,
                    &h.helper,
                    &white_whale_std::pool_network::frontend_helper::ExecuteMsg::Deposit { pair_address: p.addr.clone(), assets: assets.clone(), slippage_tolerance: None, unbonding_duration: DURS[*dur] },
                    &funds_for(&over),
                );
                if r.is_ok() {
                    cx.count("helper_overfunded:accepted");
                    let got = bal(w, &h.lp, &h.incentive) - lp_before;
                    let e = g.epoch;
                    g.first_stake_epoch.entry(user.clone()).or_insert(e);
                    *g.open.entry((user.clone(), DURS[*dur])).or_insert(0) += got;
                } else {
                    cx.count("helper_overfunded:rejected");
                }
                let held = [bal(w, &p.assets[0], &h.helper), bal(w, &p.assets[1], &h.helper), bal(w, &h.lp, &h.helper)];
                cx.check("helper.retains_nothing", held == [0, 0, 0], || format!("frontend helper holds {:?} (asset0, asset1, LP) after a deposit call with surplus funds attached", held));
            }
            IAct::Tick => {
                w.exec(MALLORY, &h.mockdist, &white_whale_std::fee_distributor::ExecuteMsg::NewEpoch {}, &[]).expect("mock new epoch");
                g.epoch += 1;
                g.claimed_in_epoch.clear();
                g.snap_taken = false;
                g.closed_before_snap = false;
                cx.count("tick");
            }
            IAct::Snapshot { user } => {
                let r = inc_exec(w, h, user, &IncExec::TakeGlobalWeightSnapshot {}, &[]);
                cx.count(if r.is_ok() { "snapshot:ok" } else { "snapshot:rejected" });
                if r.is_ok() {
                    g.snap_taken = true;
                }
            }
            IAct::Claim { user } => {
                let assets: Vec<AssetInfo> = if h.reward == h.lp { vec![h.lp.clone()] } else { vec![h.reward.clone(), h.lp.clone()] };
                let before: Vec<u128> = assets.iter().map(|x| bal(w, x, user)).collect();
                let quote: Result<RewardsResponse, String> = w.query(&h.incentive, &IncQuery::Rewards { address: user.clone() });
                let flows_before = flows_of(w, h);
                let r = inc_exec(w, h, user, &IncExec::Claim {}, &[]);
                let after: Vec<u128> = assets.iter().map(|x| bal(w, x, user)).collect();
                let paid: u128 = after[0] - before[0];
                match &r {
                    Ok(_) => {
                        cx.count("claim:ok");
                        if paid > 0 {
                            cx.count("claim:paid>0");
                        }
                        let flows_after = flows_of(w, h);
                        let claimed_delta: u128 = flows_after.iter().map(|f| f.claimed_amount.u128()).sum::<u128>() - flows_before.iter().filter(|f| flows_after.iter().any(|x| x.flow_id == f.flow_id)).map(|f| f.claimed_amount.u128()).sum::<u128>();
                        if c12 || c13 {
                            cx.check("claim.payout_equals_ledger_increase", paid == claimed_delta, || format!("claim by {} paid {} but flows' claimed amounts grew by {}", user, paid, claimed_delta));
                        }
                        if c13 {
                            let quoted: u128 = quote.as_ref().map(|q| q.rewards.iter().map(|x| x.amount.u128()).sum()).unwrap_or(u128::MAX);
                            // the clause holds "for up to 100 unclaimed epochs": a claim walks, per flow, the epochs from the one
                            // after the last claim (or, for a first claim, from the earlier of the flow's start and the user's
                            // first weight record) to the current one, and stops after 100 of them; the query does not stop
                            let span: u64 = match g.last_claimed.get(user) {
                                Some(e) => g.epoch.saturating_sub(*e),
                                None => {
                                    let first_weight = g.first_stake_epoch.get(user).map(|e| e + 1).unwrap_or(g.epoch);
                                    flows_before.iter().map(|f| g.epoch.saturating_sub(f.start_epoch.min(first_weight)) + 1).max().unwrap_or(0)
                                }
                            };
                            if span <= 100 {
                                cx.count("claim:within_100_epochs");
                                cx.check("claim.pays_exactly_what_rewards_query_reported", paid == quoted, || format!("claim by {} over {} unclaimed epochs paid {} but the Rewards query immediately before reported {:?}", user, span, paid, quote));
                            } else {
                                cx.count("claim:beyond_100_epochs");
                                cx.check("claim.pays_at_most_what_rewards_query_reported", paid <= quoted, || format!("claim by {} over {} unclaimed epochs paid {} which is more than the Rewards query reported: {:?}", user, span, paid, quote));
                            }
                            if g.claimed_in_epoch.contains(user) {
                                cx.check("claim.second_claim_in_epoch_pays_nothing", paid == 0, || format!("second claim by {} in epoch {} paid {}", user, g.epoch, paid));
                            }
                            // no single claim pays more for the epochs it covers than those epochs can emit:
                            // the linear curve emits (amount - already emitted)/(end - epoch) <= amount/(end - epoch)
                            let first = g.last_claimed.get(user).map(|e| e + 1);
                            for f in flows_after.iter() {
                                let fb = flows_before.iter().find(|x| x.flow_id == f.flow_id);
                                let paid_f = f.claimed_amount.u128() - fb.map(|x| x.claimed_amount.u128()).unwrap_or(0);
                                let mut cap = 0u128;
                                let from = first.unwrap_or(f.start_epoch).max(f.start_epoch);
                                for e in from..=g.epoch {
                                    let (amt, end) = f.asset_history.range(..=e).next_back().map(|(_, (a, en))| (a.u128(), *en)).unwrap_or((f.flow_asset.amount.u128(), f.end_epoch));
                                    if e >= end {
                                        break;
                                    }
                                    cap += amt / (end - e) as u128;
                                }
                                cx.check("claim.at_most_epoch_emissions", paid_f <= cap, || format!("flow {}: one claim by {} covering epochs {}..={} paid {} but those epochs can emit at most {}", f.flow_id, user, from, g.epoch, paid_f, cap));
                            }
                        }
                        if c13 {
                            self.oracle_per_epoch_payouts(cx, h, g, user, r.as_ref().unwrap(), &flows_before, &flows_after);
                        }
                        g.claimed_in_epoch.insert(user.clone());
                        g.last_claimed.insert(user.clone(), g.epoch);
                    }
                    Err(e) => {
                        cx.count("claim:rejected");
                        cx.note(|| format!("rejected: {}", e.msg()));
                        if c13 && g.claimed_in_epoch.contains(user) {
                            cx.count("claim:second_in_epoch_rejected");
                        }
                    }
                }
            }
            IAct::OpenFlow { creator, amount, funds, end_delta } => {
                let declared = *amount as u128 * h.scale;
                let same = h.fee == h.reward;
                // what the creator actually provides
                let (reward_sent, fee_sent): (u128, u128) = match (funds.as_str(), same) {
                    ("nothing", _) => (0, 0),
                    ("exact", true) => (declared, 0),
                    ("exact", false) => (declared, FLOW_FEE),
                    ("fee_only", true) => (FLOW_FEE, 0),
                    ("fee_only", false) => (0, FLOW_FEE),
                    ("amount_only", true) => (declared.saturating_sub(FLOW_FEE), 0),
                    ("amount_only", false) => (declared, 0),
                    (_, true) => (declared + 500, 0),
                    (_, false) => (declared + 500, FLOW_FEE + 300),
                };
                let mut coins: Vec<Coin> = vec![];
                for (a, amt) in [(&h.reward, reward_sent), (&h.fee, fee_sent)] {
                    match a {
                        AssetInfo::NativeToken { denom } => {
                            if amt > 0 {
                                if let Some(c) = coins.iter_mut().find(|c| &c.denom == denom) {
                                    c.amount += Uint128::new(amt);
                                } else {
                                    coins.push(coin(amt, denom));
                                }
                            }
                        }
                        AssetInfo::Token { contract_addr } => {
                            if !(same && a == &h.fee && amt == 0) {
                                set_allowance(w, contract_addr, creator, &h.incentive, amt);
                            }
                        }
                    }
                }
                coins.sort_by(|x, y| x.denom.cmp(&y.denom));
                let ib = bal(w, &h.reward, &h.incentive);
                let cb = bal(w, &h.fee, &h.collector);
                let ub = [bal(w, &h.reward, creator), bal(w, &h.fee, creator)];
                let r = inc_exec(
                    w,
                    h,
                    creator,
                    &IncExec::OpenFlow { start_epoch: None, end_epoch: Some(g.epoch + end_delta), curve: None, flow_asset: asset(&h.reward, declared), flow_label: None },
                    &coins,
                );
                match &r {
                    Ok(_) => {
                        cx.count("openflow:ok");
                        cx.count(&format!("openflow:ok:{funds}"));
                        let received = bal(w, &h.reward, &h.incentive) - ib;
                        let id = g.next_flow_id;
                        g.next_flow_id += 1;
                        if c12 {
                            let fl = flows_of(w, h);
                            let recorded = fl.iter().find(|f| f.flow_id == id).map(flow_amount);
                            let sig = if same && h.fee.is_native_token() { "native-fee-same-denom" } else { "" };
                            cx.check_sig("open_flow.funded_amount_equals_tokens_received", sig, recorded == Some(received), || {
                                format!("OpenFlow declared {} with funds '{}': contract received {} of the reward asset but recorded a flow of {:?}", declared, funds, received, recorded)
                            });
                            cx.check("open_flow.fee_goes_to_collector", bal(w, &h.fee, &h.collector) - cb == FLOW_FEE, || format!("collector received {} as creation fee, expected {}", bal(w, &h.fee, &h.collector) - cb, FLOW_FEE));
                            let spent = [ub[0] - bal(w, &h.reward, creator), ub[1] - bal(w, &h.fee, creator)];
                            let total_spent = if same { spent[0] } else { spent[0] + spent[1] };
                            cx.check("open_flow.creator_pays_fee_plus_funding", total_spent == received + FLOW_FEE, || format!("creator spent {:?} but the flow got {} and the fee is {}", spent, received, FLOW_FEE));
                        }
                        g.flows.insert(id, FlowG { creator: creator.clone(), funded: received, opened_after_claim: !g.claimed_in_epoch.is_empty() });
                    }
                    Err(e) => {
                        cx.count("openflow:rejected");
                        cx.note(|| format!("rejected: {}", e.msg()));
                    }
                }
                for a in [&h.reward, &h.fee] {
                    if let AssetInfo::Token { contract_addr } = a {
                        set_allowance(w, contract_addr, creator, &h.incentive, 0);
                    }
                }
            }
            IAct::ExpandFlow { id, amount, funds, by } => {
                let amt = *amount as u128 * h.scale;
                let sent = if funds == "short" { amt - 1 } else if funds == "nothing" { 0 } else { amt };
                let coins = match &h.reward {
                    AssetInfo::NativeToken { denom } => if sent == 0 { vec![] } else { vec![coin(sent, denom)] },
                    AssetInfo::Token { contract_addr } => {
                        set_allowance(w, contract_addr, by, &h.incentive, sent);
                        vec![]
                    }
                };
                let ib = bal(w, &h.reward, &h.incentive);
                let before = flows_of(w, h).iter().find(|f| f.flow_id == *id).map(|f| (flow_amount(f), f.claimed_amount.u128()));
                let end_epoch = if funds.ends_with("@end") {
                    flows_of(w, h).iter().find(|f| f.flow_id == *id).map(|f| f.end_epoch)
                } else if funds.ends_with("@far") {
                    flows_of(w, h).iter().find(|f| f.flow_id == *id).map(|f| f.start_epoch + 190)
                } else {
                    None
                };
                let (msg_asset, coins) = if funds == "case_variant_denom" {
                    let upper = match &h.reward {
                        AssetInfo::NativeToken { denom } => denom.to_uppercase(),
                        _ => unreachable!(),
                    };
                    (asset(&native(&upper), amt), vec![coin(amt, &upper)])
                } else if funds == "foreign_cw20" {
                    let x = h.foreign.as_ref().expect("foreign token");
                    set_allowance(w, x, by, &h.incentive, amt);
                    if let AssetInfo::Token { contract_addr } = &h.reward {
                        set_allowance(w, contract_addr, by, &h.incentive, 0);
                    }
                    (asset(&token(x), amt), vec![])
                } else {
                    (asset(&h.reward, amt), coins)
                };
                let r = inc_exec(w, h, by, &IncExec::ExpandFlow { flow_identifier: FlowIdentifier::Id(*id), end_epoch, flow_asset: msg_asset }, &coins);
                if funds == "foreign_cw20" {
                    set_allowance(w, h.foreign.as_ref().unwrap(), by, &h.incentive, 0);
                }
                cx.note(|| format!("flow after: {:?}", flows_of(w, h).iter().find(|f| f.flow_id == *id)));
                match &r {
                    Ok(_) => {
                        cx.count("expandflow:ok");
                        let received = bal(w, &h.reward, &h.incentive) - ib;
                        if c12 {
                            // (funded, claimed) before and after. An expansion that moves the end more than 180 epochs
                            // past the start re-bases the flow: what was claimed so far is taken off both numbers, so
                            // the quantity that must grow by exactly the tokens received is funded - claimed
                            let after = flows_of(w, h).iter().find(|f| f.flow_id == *id).map(|f| (flow_amount(f), f.claimed_amount.u128()));
                            cx.check("expand_flow.funded_amount_grows_by_tokens_received", after.zip(before).map(|(x, y)| x.0 >= x.1 && y.0 >= y.1 && x.0 - x.1 == y.0 - y.1 + received && (x.1 == y.1 || x.1 == 0)) == Some(true), || {
                                format!("ExpandFlow {} by {}: contract received {} but the flow's (funded, claimed) went {:?} -> {:?}", id, amt, received, before, after)
                            });
                            if let (Some(x), Some(y)) = (after, before) {
                                if x.1 < y.1 {
                                    cx.count("expandflow:rebased");
                                    if let Some(f) = g.flows.get_mut(id) {
                                        f.funded = f.funded.saturating_sub(y.1 - x.1);
                                    }
                                }
                            }
                        }
                        if let Some(f) = g.flows.get_mut(id) {
                            f.funded += received;
                        }
                    }
                    Err(e) => {
                        cx.count("expandflow:rejected");
                        cx.note(|| format!("rejected: {}", e.msg()));
                    }
                }
                if let AssetInfo::Token { contract_addr } = &h.reward {
                    set_allowance(w, contract_addr, by, &h.incentive, 0);
                }
            }
            IAct::OpenFlowPast { .. } | IAct::ClaimAll | IAct::Round => unreachable!(),
            IAct::CloseFlow { id, by } => {
                let fg = g.flows.get(id).cloned();
                let claimed = flows_of(w, h).iter().find(|f| f.flow_id == *id).map(|f| f.claimed_amount.u128());
                let creator = fg.as_ref().map(|f| f.creator.clone()).unwrap_or_default();
                let cb = bal(w, &h.reward, &creator);
                let others_before: Vec<u128> = everyone.iter().filter(|u| **u != creator).map(|u| bal(w, &h.reward, u)).collect();
                let r = inc_exec(w, h, by, &IncExec::CloseFlow { flow_identifier: FlowIdentifier::Id(*id) }, &[]);
                let authorised = *by == creator || by == OWNER;
                match &r {
                    Ok(_) => {
                        cx.count("closeflow:ok");
                        if c12 {
                            cx.check("close_flow.only_creator_or_owner", authorised, || format!("flow {} closed by stranger {}", id, by));
                            if let (Some(fg), Some(cl)) = (&fg, claimed) {
                                let got = bal(w, &h.reward, &creator) - cb;
                                let expanded = flows_of(w, h).is_empty();
                                let _ = expanded;
                                cx.check_sig("close_flow.returns_funded_minus_claimed", "", got == fg.funded - cl, || format!("closing flow {} (funded {}, claimed {}) returned {} to the creator", id, fg.funded, cl, got));
                                let others_after: Vec<u128> = everyone.iter().filter(|u| **u != creator).map(|u| bal(w, &h.reward, u)).collect();
                                cx.check("close_flow.pays_nobody_else", others_after == others_before, || "someone other than the creator was paid on close".to_string());
                            }
                            cx.check("close_flow.removes_flow", !flows_of(w, h).iter().any(|f| f.flow_id == *id), || format!("flow {} still listed after close", id));
                        }
                        g.flows.remove(id);
                    }
                    Err(e) => {
                        cx.count(if authorised { "closeflow:rejected" } else { "closeflow:stranger_rejected" });
                        cx.note(|| format!("rejected: {}", e.msg()));
                    }
                }
            }
        }
    }

    fn invariants(&self, w: &mut World, h: &IH, g: &IG, cx: &mut Cx) {
        let c11 = self.property == "C11";
        let c12 = self.property == "C12";
        let c13 = self.property == "C13";
        let flows = flows_of(w, h);
        if c12 {
            // the Flows query shows exactly the stored flows, each with its history cut to the documented window
            // [start, start + 100]
            let mut q = flows_query(w, h);
            q.sort_by_key(|f| f.flow_id);
            let mut st = flows_scan(w, h);
            st.sort_by_key(|f| f.flow_id);
            let same_ids = q.iter().map(|f| f.flow_id).collect::<Vec<_>>() == st.iter().map(|f| f.flow_id).collect::<Vec<_>>();
            cx.check("flows_query.lists_the_stored_flows", same_ids, || format!("Flows query lists {:?} but the contract stores {:?}", q.iter().map(|f| f.flow_id).collect::<Vec<_>>(), st.iter().map(|f| f.flow_id).collect::<Vec<_>>()));
            if same_ids {
                for (qf, sf) in q.iter().zip(st.iter()) {
                    let (lo, hi) = (sf.start_epoch, sf.start_epoch.saturating_add(100));
                    let mut want = sf.clone();
                    want.asset_history.retain(|k, _| *k >= lo && *k <= hi);
                    want.emitted_tokens.retain(|k, _| *k >= lo && *k <= hi);
                    cx.check("flows_query.shows_the_stored_flow_within_its_window", *qf == want, || format!("flow {}: the Flows query answers {:?} but the stored flow, cut to epochs {}..={}, is {:?}", sf.flow_id, qf, lo, hi, want));
                }
            }
        }
        let mut everyone: Vec<String> = self.users.clone();
        everyone.push(MALLORY.to_string());
        if c11 {
            let mut total = 0u128;
            for u in everyone.iter() {
                match positions_of(w, h, u) {
                    Ok((open, closed)) => {
                        let mo: BTreeMap<u64, u128> = g.open.iter().filter(|((x, _), _)| x == u).map(|((_, d), a)| (*d, *a)).collect();
                        let mc = g.closed.get(u).cloned().unwrap_or_default();
                        cx.check("positions_query.equals_model", open == mo && closed == mc, || format!("Positions({}) = open {:?} closed {:?}; history gives open {:?} closed {:?}", u, open, closed, mo, mc));
                        total += open.values().sum::<u128>() + closed.iter().sum::<u128>();
                    }
                    Err(e) => cx.violate("positions_query.succeeds", "", e),
                }
            }
            let flow_funds: u128 = if h.reward == h.lp { flows.iter().map(|f| flow_amount(f) - f.claimed_amount.u128()).sum() } else { 0 };
            let held = bal(w, &h.lp, &h.incentive);
            cx.check("custody.lp_balance_equals_positions_plus_flow_funds", held == total + flow_funds, || {
                format!("incentive holds {} LP but open+closed positions sum to {} and unclaimed flow funds of the LP asset to {}", held, total, flow_funds)
            });
        }
        if c12 {
            let mut owed = 0u128;
            for f in flows.iter() {
                let fg = g.flows.get(&f.flow_id);
                let funded = fg.map(|x| x.funded).unwrap_or(0);
                cx.check("flow.claimed_never_exceeds_funded", f.claimed_amount.u128() <= funded, || format!("flow {}: claimed {} > funded {}", f.flow_id, f.claimed_amount, funded));
                let sig = if h.fee == h.reward && h.fee.is_native_token() { "native-fee-same-denom" } else { "" };
                cx.check_sig("flow_query.amount_equals_funded", sig, flow_amount(f) == funded, || format!("flow {}: contract says funded {} but it actually received {}", f.flow_id, flow_amount(f), funded));
                owed += funded.saturating_sub(f.claimed_amount.u128());
            }
            let lp_custody: u128 = if h.reward == h.lp { g.open.values().sum::<u128>() + g.closed.values().map(|c| c.iter().sum::<u128>()).sum::<u128>() } else { 0 };
            let held = bal(w, &h.reward, &h.incentive);
            cx.check("flows.reward_balance_covers_funded_minus_claimed", held >= owed + lp_custody, || format!("incentive holds {} of the reward asset but flows are owed {} (+ LP custody {})", held, owed, lp_custody));
            cx.check("flows.model_and_contract_agree_on_open_flows", flows.len() == g.flows.len(), || format!("contract lists {} flows, model {}", flows.len(), g.flows.len()));
        }
        if c13 {
            let (global, per) = raw_weights(w, h);
            let sum: u128 = per.values().sum();
            let sig = if global < sum { "close-after-expand-saturates" } else { "" };
            cx.check_sig("weights.global_equals_sum_of_addresses", sig, global == sum, || format!("GLOBAL_WEIGHT {} != sum of ADDRESS_WEIGHT {} ({:?})", global, sum, per));
            // shares of the current epoch add up to at most 100%
            let mut tot = Decimal256::zero();
            let mut any = false;
            let mut detail = vec![];
            for u in everyone.iter() {
                let r: Result<RewardsShareResponse, String> = w.query(&h.incentive, &IncQuery::CurrentEpochRewardsShare { address: u.clone() });
                if let Ok(s) = r {
                    any = true;
                    tot += s.share;
                    detail.push((u.clone(), s.address_weight.u128(), s.global_weight.u128()));
                }
            }
            if any {
                cx.count("shares:evaluated");
                let sig = if g.closed_before_snap { "close-before-snapshot" } else { "" };
                cx.check_sig("shares.sum_at_most_one", sig, tot <= Decimal256::one(), || format!("epoch {}: reward shares add up to {} ({:?})", g.epoch, tot, detail));
            }
            // a position's weight (as reported) is at least its amount
            for u in self.users.iter() {
                let r: Result<PositionsResponse, String> = w.query(&h.incentive, &IncQuery::Positions { address: u.clone() });
                if let Ok(p) = r {
                    for q in p.positions {
                        if let QueryPosition::OpenPosition { amount, weight, .. } = q {
                            cx.check("weight.at_least_amount", weight >= amount, || format!("position amount {} weight {}", amount, weight));
                        }
                    }
                }
            }
        }
        let _ = b(0);
    }
}

pub fn default_users() -> Vec<String> {
    vec![ALICE.into(), BOB.into(), CAROL.into()]
}

#[allow(dead_code)]
pub fn asset_of(a: &Asset) -> u128 {
    a.amount.u128()
}
