//! Exhaustive enumeration of finite input grids (depth-1 exploration): every point of an
//! explicitly constructed grid is evaluated on the real function and compared with an
//! independent oracle. Parallel over points; nothing is sampled.

use std::collections::BTreeMap;
use std::sync::atomic::{AtomicUsize, Ordering};
use std::sync::Mutex;

use crate::engine::{Cx, Violation};

pub struct GridResult {
    pub evaluated: u64,
    pub counters: BTreeMap<String, u64>,
    /// (point index, violation), sorted by point index; a bounded number is kept PER CLASS (oracle, sig), so that a
    /// frequent class (e.g. a known finding) can never crowd out a different violation
    pub violations: Vec<(usize, Violation)>,
    pub total_violations: u64,
    /// number of violations per (oracle, sig), uncapped
    pub class_totals: BTreeMap<(String, String), u64>,
}

pub fn threads() -> usize {
    std::env::var("WWMC_THREADS")
        .ok()
        .and_then(|s| s.parse().ok())
        .unwrap_or_else(|| std::thread::available_parallelism().map(|n| n.get()).unwrap_or(8))
}

/// Evaluate `f(index, cx)` for every index in 0..n.
pub fn par_index<F>(n: usize, keep: usize, f: F) -> GridResult
where
    F: Fn(usize, &mut Cx) + Sync,
{
    par_index_with(n, keep, || (), |i, cx, _| f(i, cx))
}

/// Same, with a per-thread context (e.g. a `World`) built by `mk`.
pub fn par_index_with<C, M, F>(n: usize, keep: usize, mk: M, f: F) -> GridResult
where
    M: Fn() -> C + Sync,
    F: Fn(usize, &mut Cx, &mut C) + Sync,
{
    let next = AtomicUsize::new(0);
    let counters: Mutex<BTreeMap<String, u64>> = Mutex::new(BTreeMap::new());
    let viols: Mutex<BTreeMap<(String, String), (u64, Vec<(usize, Violation)>)>> = Mutex::new(BTreeMap::new());
    let total = AtomicUsize::new(0);
    let chunk = (n / (threads() * 16)).clamp(1, 4096);
    std::thread::scope(|sc| {
        for _ in 0..threads().min(n.max(1)) {
            sc.spawn(|| {
                let mut ctx = mk();
                let mut local = Cx::default();
                loop {
                    let start = next.fetch_add(chunk, Ordering::Relaxed);
                    if start >= n {
                        break;
                    }
                    for i in start..(start + chunk).min(n) {
                        f(i, &mut local, &mut ctx);
                        if !local.violations.is_empty() {
                            let mut v = viols.lock().unwrap();
                            for x in local.violations.drain(..) {
                                total.fetch_add(1, Ordering::Relaxed);
                                let e = v.entry((x.oracle.clone(), x.sig.clone())).or_insert((0, vec![]));
                                e.0 += 1;
                                if e.1.len() < keep * 8 || std::env::var("WWMC_KEEP_ALL").is_ok() {
                                    e.1.push((i, x));
                                }
                            }
                        }
                    }
                }
                let mut c = counters.lock().unwrap();
                for (k, v) in local.counters {
                    *c.entry(k).or_insert(0) += v;
                }
            });
        }
    });
    let per_class = viols.into_inner().unwrap();
    let mut violations: Vec<(usize, Violation)> = vec![];
    let mut class_totals = BTreeMap::new();
    for (k, (n_class, mut v)) in per_class {
        class_totals.insert(k, n_class);
        v.sort_by(|a, b| a.0.cmp(&b.0));
        violations.extend(v);
    }
    violations.sort_by(|a, b| (a.0, &a.1.oracle).cmp(&(b.0, &b.1.oracle)));
    GridResult {
        evaluated: n as u64,
        counters: counters.into_inner().unwrap(),
        violations,
        total_violations: total.load(Ordering::Relaxed) as u64,
        class_totals,
    }
}

/// Boundary-dense u128 value alphabet. level 0: small; 1: standard; 2: extended.
pub fn boundary_values_level(level: u8) -> Vec<u128> {
    let mut v: Vec<u128> = vec![1, 2, 3, 7];
    let ks: Vec<u32> = match level {
        0 => vec![3, 6, 12, 18, 24, 30, 38],
        1 => vec![3, 6, 9, 12, 18, 19, 24, 30, 36, 38],
        _ => (1..=38).collect(),
    };
    for k in ks {
        let p = 10u128.pow(k);
        v.push(p);
        if level >= 1 || k == 3 || k == 18 {
            v.push(p - 1);
            v.push(p + 1);
        }
    }
    v.push(1u128 << 64);
    if level >= 1 {
        v.push((1u128 << 64) - 1);
        v.push((1u128 << 64) + 1);
        v.push(1u128 << 100);
    }
    if level >= 2 {
        for k in (8..128).step_by(8) {
            let p = 1u128 << k;
            v.push(p);
            v.push(p - 1);
            v.push(p + 1);
        }
        v.push(u128::MAX - 1);
    }
    v.push(1u128 << 127);
    v.push(u128::MAX);
    v.sort();
    v.dedup();
    v
}
pub fn boundary_values(full: bool) -> Vec<u128> {
    boundary_values_level(if full { 1 } else { 0 })
}
