//! C09 — fee distributor epoch ledgers, over the real fee_distributor + whale_lair + fee
//! collector (+ empty pool/vault factories and router so that NewEpoch's ForwardFees runs).

use std::collections::{BTreeMap, BTreeSet};

use cosmwasm_std::{BankMsg, Decimal, Uint128, Uint64};
use serde::{Deserialize, Serialize};
use white_whale_std::fee_distributor::{ClaimableEpochsResponse, Epoch, EpochResponse, ExecuteMsg as DistExec, QueryMsg as DistQuery};
use white_whale_std::pool_network::asset::{Asset, AssetInfo};
use white_whale_std::whale_lair::{BondingWeightResponse, ExecuteMsg as LairExec, QueryMsg as LairQuery};

use crate::big::b;
use crate::deploy::*;
use crate::engine::{Cx, Scenario};
use crate::hub::{deploy_fee_hub, FeeHub, HubOpts};
use crate::scn_lair::{BD, DAY_NS};
use crate::world::{coin, World, GENESIS_TIME_NS};

#[derive(Clone, Debug)]
pub struct DRoot {
    pub label: String,
    pub grace: u64,
    pub growth_rate: Decimal,
    /// number of epochs already created in the setup prefix (with alice bonded and an inflow each)
    pub pre_epochs: u64,
    /// further set-up actions after the epoch prefix
    pub then: Vec<DAct>,
}

pub struct DistScn {
    pub roots: Vec<DRoot>,
    pub users: Vec<String>,
}

#[derive(Clone, Debug, Hash, Default)]
pub struct DG {
    pub epoch: u64,
    /// epoch id during which the user first bonded (claims allowed only for epochs > this)
    pub first_bond_epoch: BTreeMap<String, u64>,
    pub paid: BTreeSet<(String, u64)>,
    /// epochs that left the grace window, with the amount rolled over at that moment
    pub expired: BTreeMap<u64, u128>,
    pub grace: u64,
    pub claimed_in_epoch: BTreeSet<String>,
}

#[derive(Clone, Debug, Serialize, Deserialize)]
pub enum DAct {
    /// advance one day and create the next epoch
    Epoch,
    /// NewEpoch without advancing time
    NewEpochEarly,
    Inflow { amount: u64 },
    /// an inflow on the scale of an 18-decimals asset: 3e19 base units (above 2^64), freshly minted to the sender
    BigInflow,
    Bond { user: String, amount: u64 },
    Unbond { user: String, part: String },
    Claim { user: String },
    GracePlus { by: u64 },
    GraceMinus,
}

fn amount_of(v: &[Asset], denom: &str) -> u128 {
    v.iter().filter(|a| matches!(&a.info, AssetInfo::NativeToken { denom: d } if d == denom)).map(|a| a.amount.u128()).sum()
}

pub fn epoch_of(w: &World, h: &FeeHub, id: u64) -> Option<Epoch> {
    let r: Result<EpochResponse, String> = w.query(&h.distributor, &DistQuery::Epoch { id: Uint64::new(id) });
    r.ok().map(|e| e.epoch)
}

impl Scenario for DistScn {
    type Action = DAct;
    type Ghost = DG;
    type Handles = FeeHub;

    fn name(&self) -> String {
        "fee-distributor".into()
    }
    fn root_labels(&self) -> Vec<String> {
        self.roots.iter().map(|r| r.label.clone()).collect()
    }
    fn setup(&self, root: usize, w: &mut World) -> (FeeHub, DG) {
        let r = &self.roots[root];
        // (roots labelled "genesis+0.3s": the epoch clock starts 300 ms after a whole second, while blocks fall on whole seconds)
        let mut o = HubOpts::basic(GENESIS_TIME_NS + if r.label.contains("genesis+0.3s") { 300_000_000 } else { 0 }, r.grace);
        o.growth_rate = r.growth_rate;
        let h = deploy_fee_hub(w, &o);
        for u in self.users.iter().chain([MALLORY.to_string()].iter()) {
            w.mint_native(u, 1_000_000_000, BD[0]);
            w.mint_native(u, 1_000_000_000, BD[1]);
        }
        let mut g = DG { grace: r.grace, ..Default::default() };
        let mut cx = Cx::default();
        if r.pre_epochs > 0 {
            let a = self.users[0].clone();
            self.step(w, &h, &mut g, &DAct::Bond { user: a, amount: 1000 }, &mut cx);
            for _ in 0..r.pre_epochs {
                self.step(w, &h, &mut g, &DAct::Inflow { amount: 1_000_000 }, &mut cx);
                self.step(w, &h, &mut g, &DAct::Epoch, &mut cx);
            }
        }
        for a in &r.then {
            self.step(w, &h, &mut g, a, &mut cx);
        }
        assert!(cx.violations.is_empty(), "root setup violated oracles: {:?}", cx.violations);
        (h, g)
    }

    fn actions(&self, _w: &World, _h: &FeeHub, g: &DG, _depth: usize) -> Vec<DAct> {
        let mut v = vec![DAct::Epoch, DAct::NewEpochEarly];
        for a in [1u64, 999, 1_000_000] {
            v.push(DAct::Inflow { amount: a });
        }
        for (ui, u) in self.users.iter().enumerate() {
            v.push(DAct::Bond { user: u.clone(), amount: if ui == 0 { 1000 } else { 3000 } });
            if g.first_bond_epoch.contains_key(u) {
                v.push(DAct::Unbond { user: u.clone(), part: "half".into() });
                if ui == 0 {
                    v.push(DAct::Unbond { user: u.clone(), part: "all".into() });
                }
            }
            v.push(DAct::Claim { user: u.clone() });
        }
        if g.grace < 5 {
            v.push(DAct::GracePlus { by: 1 });
        }
        v.push(DAct::GraceMinus);
        v
    }

    fn step(&self, w: &mut World, h: &FeeHub, g: &mut DG, a: &DAct, cx: &mut Cx) {
        let denom = BD[0];
        match a {
            DAct::Epoch | DAct::NewEpochEarly => {
                if matches!(a, DAct::Epoch) {
                    w.advance(DAY_NS, 1);
                }
                // which epoch leaves the window if this succeeds: with `grace` epochs claimable, the
                // oldest of the last `grace` stored epochs expires
                let claimable: ClaimableEpochsResponse = w.query(&h.distributor, &DistQuery::ClaimableEpochs {}).expect("claimable epochs");
                let expiring: Option<Epoch> = if claimable.epochs.len() as u64 == g.grace { claimable.epochs.last().cloned() } else { None };
                let coll_before = w.native_balance(&h.collector, denom);
                let dist_before = w.native_balance(&h.distributor, denom);
                let r = w.exec(MALLORY, &h.distributor, &DistExec::NewEpoch {}, &[]);
                match &r {
                    Ok(_) => {
                        cx.count("newepoch:ok");
                        g.epoch += 1;
                        g.claimed_in_epoch.clear();
                        let ne = epoch_of(w, h, g.epoch).unwrap_or_default();
                        let forwarded = w.native_balance(&h.distributor, denom) - dist_before;
                        cx.check("newepoch.collector_balance_is_forwarded", forwarded == coll_before && w.native_balance(&h.collector, denom) == 0, || format!("collector held {} before NewEpoch, distributor received {}", coll_before, forwarded));
                        let rolled = expiring.as_ref().map(|e| amount_of(&e.available, denom)).unwrap_or(0);
                        cx.check("rollover.added_to_new_epoch_exactly_once", amount_of(&ne.total, denom) == forwarded + rolled && amount_of(&ne.available, denom) == forwarded + rolled, || {
                            format!("new epoch {} total {} available {} but forwarded fees {} + rolled over {} (from epoch {:?})", g.epoch, amount_of(&ne.total, denom), amount_of(&ne.available, denom), forwarded, rolled, expiring.as_ref().map(|e| e.id))
                        });
                        if let Some(e) = &expiring {
                            if rolled > 0 {
                                cx.count("rollover:nonzero");
                            }
                            if let Some(_prev) = g.expired.get(&e.id.u64()) {
                                // an epoch that already left the window once (grace period was increased
                                // afterwards) must not roll anything over a second time
                                cx.check("rollover.added_to_new_epoch_exactly_once", rolled == 0, || format!("epoch {} rolled over {} a second time", e.id, rolled));
                            } else {
                                g.expired.insert(e.id.u64(), rolled);
                            }
                            let after = epoch_of(w, h, e.id.u64()).unwrap_or_default();
                            cx.check("rollover.expired_epoch_available_emptied", after.available.is_empty(), || format!("expired epoch {} still has available {:?}", e.id, after.available));
                        }
                    }
                    Err(e) => {
                        cx.count("newepoch:rejected");
                        cx.note(|| format!("rejected: {}", e.msg()));
                        if matches!(a, DAct::Epoch) {
                            cx.check("newepoch.accepted_after_a_full_day", false, || format!("NewEpoch after a full epoch duration was rejected: {}", e.msg()));
                        }
                    }
                }
            }
            DAct::Inflow { amount } => {
                w.exec_cosmos(MALLORY, BankMsg::Send { to_address: h.collector.clone(), amount: vec![coin(*amount as u128, denom)] }.into()).expect("inflow");
                cx.count("inflow");
            }
            DAct::BigInflow => {
                let amt = 30_000_000_000_000_000_000u128;
                w.mint_native(MALLORY, amt, denom);
                w.exec_cosmos(MALLORY, BankMsg::Send { to_address: h.collector.clone(), amount: vec![coin(amt, denom)] }.into()).expect("big inflow");
                cx.count("inflow:above_2^64");
            }
            DAct::Bond { user, amount } => {
                let r = w.exec(user, &h.lair, &LairExec::Bond { asset: asset(&native(denom), *amount as u128) }, &[coin(*amount as u128, denom)]);
                if r.is_ok() {
                    cx.count("bond:ok");
                    g.first_bond_epoch.entry(user.clone()).or_insert(g.epoch);
                } else {
                    cx.count("bond:rejected");
                }
            }
            DAct::Unbond { user, part } => {
                let bonded: white_whale_std::whale_lair::BondedResponse = w.query(&h.lair, &LairQuery::Bonded { address: user.clone() }).expect("bonded");
                let bnd = amount_of(&bonded.bonded_assets, denom);
                let amt = if part == "half" { bnd / 2 } else { bnd };
                if amt == 0 {
                    return;
                }
                let r = w.exec(user, &h.lair, &LairExec::Unbond { asset: asset(&native(denom), amt) }, &[]);
                if r.is_ok() {
                    cx.count("unbond:ok");
                    if amt == bnd {
                        // fully unbonded: a later bond starts a new bonding history
                        g.first_bond_epoch.remove(user);
                    }
                } else {
                    cx.count("unbond:rejected");
                }
            }
            DAct::Claim { user } => {
                let ids: Vec<u64> = (1..=g.epoch).collect();
                let before: Vec<Option<Epoch>> = ids.iter().map(|i| epoch_of(w, h, *i)).collect();
                // independent expectation: for every claimable epoch, floor(total * share) with the
                // share the bonding contract reports for (user, epoch start, epoch global index)
                let claimable: ClaimableEpochsResponse = w.query(&h.distributor, &DistQuery::Claimable { address: user.clone() }).expect("claimable");
                let mut expect = 0u128;
                for e in claimable.epochs.iter() {
                    let wr: Result<BondingWeightResponse, String> = w.query(&h.lair, &LairQuery::Weight { address: user.clone(), timestamp: Some(e.start_time), global_index: Some(e.global_index.clone()) });
                    if let Ok(wr) = wr {
                        let tot = amount_of(&e.total, denom);
                        expect += (b(tot) * b(wr.share.atomics().u128()) / b(ONE18)).low_u128();
                    }
                }
                let ub = w.native_balance(user, denom);
                let db = w.native_balance(&h.distributor, denom);
                let r = w.exec(user, &h.distributor, &DistExec::Claim {}, &[]);
                match &r {
                    Ok(_) => {
                        cx.count("claim:ok");
                        let paid = w.native_balance(user, denom) - ub;
                        if paid > 0 {
                            cx.count("claim:paid>0");
                        }
                        cx.check("claim.distributor_pays_it", db - w.native_balance(&h.distributor, denom) == paid, || "distributor balance decrease != payout".to_string());
                        let mut ledger_dec = 0u128;
                        for (k, id) in ids.iter().enumerate() {
                            let bef = before[k].clone().unwrap_or_default();
                            let aft = epoch_of(w, h, *id).unwrap_or_default();
                            let d = amount_of(&bef.available, denom).saturating_sub(amount_of(&aft.available, denom));
                            let c = amount_of(&aft.claimed, denom).saturating_sub(amount_of(&bef.claimed, denom));
                            cx.check("claim.available_and_claimed_move_together", d == c, || format!("epoch {}: available -{} but claimed +{}", id, d, c));
                            if d > 0 {
                                ledger_dec += d;
                                cx.check("claim.at_most_once_per_epoch", !g.paid.contains(&(user.clone(), *id)), || format!("{} was paid twice for epoch {}", user, id));
                                g.paid.insert((user.clone(), *id));
                                let fb = g.first_bond_epoch.get(user).cloned();
                                cx.check("claim.never_for_epochs_before_bonding", fb.map(|f| *id > f).unwrap_or(false), || format!("{} (first bonded in epoch {:?}) was paid for epoch {}", user, fb, id));
                                cx.check("claim.not_from_expired_epochs", !g.expired.contains_key(id), || format!("{} was paid from expired epoch {}", user, id));
                            }
                        }
                        cx.check("claim.payout_equals_ledger_decrease", paid == ledger_dec, || format!("claim by {} paid {} but the epochs' available amounts fell by {}", user, paid, ledger_dec));
                        cx.check("claim.payout_equals_sum_of_floor_total_times_share", paid == expect, || format!("claim by {} paid {} but sum floor(total_e*share_e) = {}", user, paid, expect));
                        if g.claimed_in_epoch.contains(user) {
                            cx.check("claim.second_claim_in_epoch_pays_nothing", paid == 0, || format!("second claim by {} in epoch {} paid {}", user, g.epoch, paid));
                        }
                        g.claimed_in_epoch.insert(user.clone());
                    }
                    Err(e) => {
                        cx.count("claim:rejected");
                        cx.note(|| format!("rejected: {}", e.msg()));
                    }
                }
            }
            DAct::GracePlus { by } => {
                let r = w.exec(
                    OWNER,
                    &h.distributor,
                    &DistExec::UpdateConfig { owner: None, bonding_contract_addr: None, fee_collector_addr: None, grace_period: Some(Uint64::new(g.grace + by)), distribution_asset: None, epoch_config: None },
                    &[],
                );
                if r.is_ok() {
                    g.grace += by;
                    cx.count("grace:increased");
                }
            }
            DAct::GraceMinus => {
                let r = w.exec(
                    OWNER,
                    &h.distributor,
                    &DistExec::UpdateConfig { owner: None, bonding_contract_addr: None, fee_collector_addr: None, grace_period: Some(Uint64::new(g.grace.saturating_sub(1))), distribution_asset: None, epoch_config: None },
                    &[],
                );
                cx.check("grace.never_decreases", r.is_err(), || "grace period decrease accepted".to_string());
            }
        }
    }

    fn invariants(&self, w: &mut World, h: &FeeHub, g: &DG, cx: &mut Cx) {
        let denom = BD[0];
        let mut sum_avail = 0u128;
        for id in 1..=g.epoch {
            let e = match epoch_of(w, h, id) {
                Some(e) => e,
                None => {
                    cx.violate("epoch_query.succeeds", "", format!("epoch {} not readable", id));
                    continue;
                }
            };
            let (t, a, c) = (amount_of(&e.total, denom), amount_of(&e.available, denom), amount_of(&e.claimed, denom));
            sum_avail += a;
            if let Some(rolled) = g.expired.get(&id) {
                cx.check("expired.available_stays_empty", a == 0, || format!("expired epoch {} has available {}", id, a));
                cx.check("ledger.claimed_plus_rolled_equals_total", c + rolled == t, || format!("expired epoch {}: claimed {} + rolled over {} != total {}", id, c, rolled, t));
            } else {
                cx.check("ledger.claimed_plus_available_equals_total", c + a == t, || format!("epoch {}: claimed {} + available {} != total {}", id, c, a, t));
            }
        }
        let bal = w.native_balance(&h.distributor, denom);
        cx.check("solvent.distributor_covers_all_available", bal >= sum_avail, || format!("distributor holds {} but epochs' available amounts sum to {}", bal, sum_avail));
        let cfg: white_whale_std::fee_distributor::Config = w.query(&h.distributor, &DistQuery::Config {}).expect("config");
        cx.check("grace.matches_model", cfg.grace_period.u64() == g.grace, || format!("grace {} vs model {}", cfg.grace_period, g.grace));
        let _ = Uint128::zero();
    }
}
