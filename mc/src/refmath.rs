//! Reference mathematics for the oracles, written independently of the contracts:
//! exact integer/rational arithmetic on 1024-bit integers, roots by bisection on the exact
//! polynomial: every root is characterised by the exact sign predicate (f(r-1) < 0 <= f(r)); the
//! search for it (monotone exact-integer Newton from above, then unit steps) is independent of the
//! contracts' floating iteration and its result is re-checked against the predicate.

use crate::big::{b, pow10, U1024};

pub const NORM_DEC: u32 = 18;

/// amount in units of 10^-18 whole tokens (exact, decimals <= 18)
pub fn norm(x: u128, decimals: u8) -> U1024 {
    b(x) * pow10(NORM_DEC - decimals as u32)
}

/// dust allowance for LP-value comparisons, in normalised units: a few base units of the
/// coarser asset (the contract's own D is computed to +-1 raw unit per Newton step).
pub fn lp_dust(decimals: &[u8]) -> U1024 {
    let min = *decimals.iter().min().unwrap() as u32;
    b(8) * pow10(NORM_DEC - min)
}

/// Smallest integer D >= 0 with f(D) >= 0 where, for n coins with reserves x_i and
/// Ann = amp * n (the pools' own convention, see `compute_next_d` in both pool contracts):
///   f(D) = Ann*D + D^(n+1)/(n^n * prod x) - D - Ann*sum x
/// f is strictly increasing for D > 0, f(sum) >= 0 (AM-GM), so the root lies in (0, sum].
/// Evaluated exactly after multiplying by n^n * prod x.
pub fn stable_d(amp: u64, xs: &[U1024]) -> U1024 {
    let n = xs.len() as u64;
    let ann = b((amp * n) as u128);
    let mut sum = U1024::zero();
    let mut prod = U1024::one();
    for x in xs {
        sum = sum + *x;
        prod = prod * *x;
    }
    if sum.is_zero() {
        return U1024::zero();
    }
    if prod.is_zero() {
        // degenerate (a reserve is zero): D^(n+1)/0 → invariant undefined; return 0
        return U1024::zero();
    }
    let mut nn = U1024::one();
    for _ in 0..n {
        nn = nn * b(n as u128);
    }
    let k = nn * prod; // n^n * prod x
    let f_ge0 = |d: U1024| -> bool {
        // Ann*D*k + D^(n+1) >= D*k + Ann*sum*k
        let mut dp = d;
        for _ in 0..n {
            dp = dp * d;
        }
        ann * d * k + dp >= d * k + ann * sum * k
    };
    // f is convex and increasing on D > 0, so exact-integer Newton steps from above (D <- D - floor(f/f'))
    // stay at or above the root and decrease monotonically; the loop ends within one unit above it.
    // The answer is then pinned down by the exact predicate itself (f(D-1) < 0 <= f(D)), so the
    // search strategy is only a matter of speed (plain bisection needed ~140 evaluations).
    let annk = ann * k;
    let rhs_const = annk * sum;
    let np1 = b(n as u128 + 1);
    let mut d = sum; // f(sum) >= 0
    loop {
        let mut dn = U1024::one();
        for _ in 0..n {
            dn = dn * d;
        }
        let lhs = annk * d + dn * d;
        let rhs = d * k + rhs_const;
        if lhs < rhs {
            // cannot happen for iterates above the root; fall back to stepping up
            break;
        }
        let fprime = np1 * dn + annk - k; // Ann >= 1
        let step = (lhs - rhs) / fprime;
        if step.is_zero() {
            break;
        }
        d = d - step;
    }
    while !f_ge0(d) {
        d = d + U1024::one();
    }
    while !d.is_zero() && f_ge0(d - U1024::one()) {
        d = d - U1024::one();
    }
    d
}

pub fn stable_d_norm(amp: u64, raw: &[u128], decimals: &[u8]) -> U1024 {
    let xs: Vec<U1024> = raw.iter().zip(decimals.iter()).map(|(x, d)| norm(*x, *d)).collect();
    stable_d(amp, &xs)
}

/// Given D and all reserves except the one at `j` (already updated), the smallest y with
/// g(y) >= 0 where g(y) = Ann*(s' + y) + D - Ann*D - D^(n+1)/(n^n * p' * y), strictly
/// increasing in y.
pub fn stable_y(amp: u64, d: U1024, others: &[U1024]) -> U1024 {
    let n = (others.len() + 1) as u64;
    let ann = b((amp * n) as u128);
    let mut s = U1024::zero();
    let mut p = U1024::one();
    for x in others {
        s = s + *x;
        p = p * *x;
    }
    let mut nn = U1024::one();
    for _ in 0..n {
        nn = nn * b(n as u128);
    }
    let mut dp = d;
    for _ in 0..n {
        dp = dp * d;
    }
    let k = nn * p;
    // g(y)*k*y >= 0  <=>  Ann*(s+y)*k*y + D*k*y >= Ann*D*k*y + D^(n+1)
    let g_ge0 = |y: U1024| -> bool { ann * (s + y) * k * y + d * k * y >= ann * d * k * y + dp };
    let mut hi = d.max(U1024::one());
    // make sure hi satisfies g >= 0
    let mut guard = 0;
    while !g_ge0(hi) {
        hi = hi << 1;
        guard += 1;
        if guard > 600 {
            break;
        }
    }
    // q(y) = g(y)*k*y = A*y^2 + (Bp - Bn)*y - C is a convex parabola with q(0) < 0: exact-integer Newton
    // steps from above stay above the positive root; the result is pinned by the predicate itself.
    let a = ann * k;
    let bp = ann * s * k + d * k;
    let bn = ann * d * k;
    let mut y = hi;
    loop {
        let lhs = a * y * y + bp * y;
        let rhs = bn * y + dp;
        if lhs < rhs {
            break;
        }
        let slope_pos = b(2) * a * y + bp;
        if slope_pos <= bn {
            break;
        }
        let step = (lhs - rhs) / (slope_pos - bn);
        if step.is_zero() {
            break;
        }
        y = y - step;
    }
    while !g_ge0(y) {
        y = y + U1024::one();
    }
    while !y.is_zero() && g_ge0(y - U1024::one()) {
        y = y - U1024::one();
    }
    y
}

#[derive(Clone, Copy, Debug, PartialEq, Eq)]
pub enum Spread {
    MustAccept,
    MustReject,
    Either,
}

/// Documented slippage rule of `assert_max_spread`, in exact rationals with a one-unit /
/// 1e-18 indifference band. `max_spread` and `belief` are 18-decimal atomics.
pub fn spread_verdict(offer: u128, gross: u128, spread: u128, max_spread: Option<u128>, belief: Option<u128>) -> Spread {
    let e18 = b(1_000_000_000_000_000_000);
    let half = 500_000_000_000_000_000u128;
    let s = max_spread.unwrap_or(10_000_000_000_000_000u128).min(half);
    match belief {
        None => {
            let tot = b(gross) + b(spread);
            if tot.is_zero() {
                return Spread::Either;
            }
            let lhs = b(spread) * e18;
            if lhs <= b(s) * tot {
                Spread::MustAccept
            } else if lhs >= b(s + 1) * tot {
                Spread::MustReject
            } else {
                Spread::Either
            }
        }
        Some(0) => Spread::Either,
        Some(pa) => {
            // exact: accept iff gross >= (offer / p) * (1 - s)
            // gross * pa * 1e18 >= offer * 1e18 * (1e18 - s)
            let accept = b(gross) * b(pa) * e18 >= b(offer) * e18 * (e18 - b(s));
            if accept {
                return Spread::MustAccept;
            }
            // lower bound of the expected return with the inverse price floored at 18 decimals
            let inv_lo = e18 * e18 / b(pa);
            let e_lo = b(offer) * inv_lo / e18;
            let thr = e_lo * (e18 - b(s) - U1024::one()) / e18;
            if b(gross) + U1024::one() < thr {
                Spread::MustReject
            } else {
                Spread::Either
            }
        }
    }
}

/// rounding dust for invariant comparisons in (heavily) imbalanced pools: a few base units of any
/// asset valued at the curve's local slope, i.e. 4 + 4 * max_i (D(x + 1 base unit of i) - D(x)),
/// in normalised units
pub fn slope_dust_norm(amp: u64, raw: &[u128], decimals: &[u8]) -> U1024 {
    let d = stable_d_norm(amp, raw, decimals);
    let mut m = pow10(NORM_DEC - *decimals.iter().min().unwrap() as u32);
    for i in 0..raw.len() {
        let mut r2 = raw.to_vec();
        r2[i] += 1;
        let s = stable_d_norm(amp, &r2, decimals).saturating_sub(d);
        if s > m {
            m = s;
        }
    }
    b(4) * m + b(4) * pow10(NORM_DEC - *decimals.iter().min().unwrap() as u32)
}

/// Is `minted` explained by "LP minted from the invariant over RAW base-unit amounts" (the known
/// behaviour of the stableswap pair with unequal decimals)? True iff
/// minted <= S * (Draw1 - Draw0) / Draw0 with both raw invariants known to +-2 units (or the
/// slope-scaled dust in heavily imbalanced pools).
pub fn explained_by_raw_invariant(amp: u64, r0: [u128; 2], r1: [u128; 2], supply: u128, minted: u128) -> bool {
    let d0 = stable_d(amp, &[b(r0[0]), b(r0[1])]);
    let d1 = stable_d(amp, &[b(r1[0]), b(r1[1])]);
    let d0_lo = d0.saturating_sub(b(2));
    if d0_lo.is_zero() {
        return false;
    }
    let lhs = b(minted) * d0_lo;
    if lhs <= b(supply) * ((d1 + b(2)).saturating_sub(d0_lo)) {
        return true;
    }
    // slope-scaled dust on the raw curve
    let mut m = U1024::one();
    for i in 0..2 {
        let mut r = r0;
        r[i] += 1;
        let s = stable_d(amp, &[b(r[0]), b(r[1])]).saturating_sub(d0);
        if s > m {
            m = s;
        }
    }
    lhs <= b(supply) * ((d1 + b(4) + b(4) * m).saturating_sub(d0_lo))
}

#[cfg(test)]
mod tests {
    use super::*;

    fn d_bisect(amp: u64, xs: &[U1024]) -> U1024 {
        let n = xs.len() as u64;
        let ann = b((amp * n) as u128);
        let mut sum = U1024::zero();
        let mut prod = U1024::one();
        for x in xs {
            sum = sum + *x;
            prod = prod * *x;
        }
        if sum.is_zero() || prod.is_zero() {
            return U1024::zero();
        }
        let mut nn = U1024::one();
        for _ in 0..n {
            nn = nn * b(n as u128);
        }
        let k = nn * prod;
        let f = |d: U1024| {
            let mut dp = d;
            for _ in 0..n {
                dp = dp * d;
            }
            ann * d * k + dp >= d * k + ann * sum * k
        };
        let (mut lo, mut hi) = (U1024::zero(), sum);
        while hi - lo > U1024::one() {
            let mid = (lo + hi) >> 1;
            if f(mid) {
                hi = mid;
            } else {
                lo = mid;
            }
        }
        hi
    }

    fn y_bisect(amp: u64, d: U1024, others: &[U1024]) -> U1024 {
        let n = (others.len() + 1) as u64;
        let ann = b((amp * n) as u128);
        let mut s = U1024::zero();
        let mut p = U1024::one();
        for x in others {
            s = s + *x;
            p = p * *x;
        }
        let mut nn = U1024::one();
        for _ in 0..n {
            nn = nn * b(n as u128);
        }
        let mut dp = d;
        for _ in 0..n {
            dp = dp * d;
        }
        let k = nn * p;
        let g = |y: U1024| ann * (s + y) * k * y + d * k * y >= ann * d * k * y + dp;
        let (mut lo, mut hi) = (U1024::zero(), d.max(U1024::one()));
        while !g(hi) {
            hi = hi << 1;
        }
        while hi - lo > U1024::one() {
            let mid = (lo + hi) >> 1;
            if g(mid) {
                hi = mid;
            } else {
                lo = mid;
            }
        }
        hi
    }

    #[test]
    fn newton_search_agrees_with_bisection_on_a_grid() {
        let vals: Vec<u128> = vec![1, 2, 3, 7, 1000, 1001, 999_999, 1_000_000_000, 123_456_789_012, 1 << 64, (1 << 100) + 12345, 10u128.pow(30), u128::MAX / 3];
        let mut n = 0;
        for amp in [1u64, 2, 85, 100, 1000, 1_000_000] {
            for &x in &vals {
                for &y in &vals {
                    let xs2 = [b(x), b(y)];
                    let d2 = stable_d(amp, &xs2);
                    assert_eq!(d2, d_bisect(amp, &xs2), "D2 amp {amp} {x} {y}");
                    assert_eq!(stable_y(amp, d2, &[b(x)]), y_bisect(amp, d2, &[b(x)]), "y2 amp {amp} {x} {y}");
                    for &z in &vals {
                        let xs3 = [b(x) * pow10(12), b(y) * pow10(12), b(z)];
                        let d3 = stable_d(amp, &xs3);
                        assert_eq!(d3, d_bisect(amp, &xs3), "D3 amp {amp} {x} {y} {z}");
                        assert_eq!(stable_y(amp, d3, &xs3[..2]), y_bisect(amp, d3, &xs3[..2]), "y3 amp {amp} {x} {y} {z}");
                        // a y for a different D (as after a deposit)
                        let d3b = d3 + d3 / b(7) + b(1);
                        assert_eq!(stable_y(amp, d3b, &xs3[1..]), y_bisect(amp, d3b, &xs3[1..]), "y3b amp {amp} {x} {y} {z}");
                        n += 1;
                    }
                }
            }
        }
        assert!(n > 10_000);
    }
}
