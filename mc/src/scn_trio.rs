//! Three-asset stableswap pool scenario over the real factory + stableswap_3pool + cw20.
//! Serves C04 (histories, amp ramps), C07 (ledger part), C14/C15 probes.

use cosmwasm_std::{to_json_binary, Decimal, Uint128};
use serde::{Deserialize, Serialize};
use white_whale_std::pool_network::asset::AssetInfo;
use white_whale_std::pool_network::trio::{Config as TrioConfig, ExecuteMsg as TrioExec, PoolResponse, ProtocolFeesResponse, QueryMsg as TrioQuery, RampAmp, SimulationResponse};

use crate::big::{b, U1024};
use crate::deploy::*;
use crate::engine::{Cx, Scenario};
use crate::refmath;
use crate::scn_pair::{loose_belief, Probe};
use crate::world::{attr_u128, coin, TxResult, World};

pub const TD: [&str; 3] = ["uaaa", "ubbb", "uccc"];
const BIG_FUND: u128 = 1u128 << 122;

#[derive(Clone, Debug)]
pub struct TrioRoot {
    pub label: String,
    /// third asset is a cw20 token
    pub with_cw20: bool,
    pub amp: u64,
    pub fees: Fee3,
    pub first: [u128; 3],
    pub pre_swaps: bool,
    /// start an amplification ramp to this target over 20000 blocks and advance about 7000 blocks, to the last block before
    /// the effective amplification steps (mid-ramp root)
    pub mid_ramp_to: Option<u64>,
}

pub struct TrioScn {
    pub property: String,
    pub roots: Vec<TrioRoot>,
    pub fee_alphabet: Vec<Fee3>,
    pub probe: Probe,
    pub with_ramps: bool,
}

#[derive(Clone, Debug)]
pub struct TH {
    pub hub: PoolHub,
    pub trio: TrioH,
    pub root: TrioRoot,
}

#[derive(Clone, Debug, Hash, Default)]
pub struct TG {
    pub locked: u128,
    pub charged: [u128; 3],
    pub burned: [u128; 3],
    pub supply0: [u128; 3],
}

#[derive(Clone, Debug, Serialize, Deserialize)]
pub enum TAct {
    Provide { user: String, shape: String },
    Withdraw { user: String, part: String },
    Swap { user: String, from: usize, to: usize, amount: String },
    /// a swap or deposit whose message declares a tenth of a native reserve while one unit of it is attached
    Underfunded { user: String, what: String },
    /// a swap offering (attached in full) a bank coin whose denom is spelled exactly like the contract address of the
    /// pool's cw20 asset: it is not an asset of the pool
    SwapAddrCoin { user: String, to: usize },
    Collect { user: String },
    SetFees { idx: usize },
    Ramp { kind: String, dblocks: u64 },
    AdvanceBlocks { n: u64 },
}

pub fn trio_pool(w: &World, t: &str) -> Result<([u128; 3], u128), String> {
    let r: PoolResponse = w.query(t, &TrioQuery::Pool {})?;
    Ok(([r.assets[0].amount.u128(), r.assets[1].amount.u128(), r.assets[2].amount.u128()], r.total_share.u128()))
}
pub fn trio_fees(w: &World, t: &str, all_time: bool) -> Result<[u128; 3], String> {
    let r: ProtocolFeesResponse = w.query(t, &TrioQuery::ProtocolFees { asset_id: None, all_time: Some(all_time) })?;
    Ok([r.fees[0].amount.u128(), r.fees[1].amount.u128(), r.fees[2].amount.u128()])
}
pub fn trio_burned(w: &World, t: &str) -> Result<[u128; 3], String> {
    let r: ProtocolFeesResponse = w.query(t, &TrioQuery::BurnedFees { asset_id: None })?;
    Ok([r.fees[0].amount.u128(), r.fees[1].amount.u128(), r.fees[2].amount.u128()])
}
pub fn trio_config(w: &World, t: &str) -> TrioConfig {
    w.query(t, &TrioQuery::Config {}).expect("trio config")
}

/// effective amplification at `height`, recomputed independently from the stored ramp
pub fn effective_amp(c: &TrioConfig, height: u64) -> u64 {
    if height >= c.future_amp_block || c.future_amp_block <= c.initial_amp_block {
        return c.future_amp;
    }
    let range = (c.future_amp_block - c.initial_amp_block) as u128;
    let delta = (height.saturating_sub(c.initial_amp_block)) as u128;
    if c.future_amp >= c.initial_amp {
        c.initial_amp + (((c.future_amp - c.initial_amp) as u128 * delta) / range) as u64
    } else {
        c.initial_amp - (((c.initial_amp - c.future_amp) as u128 * delta) / range) as u64
    }
}

pub fn trio_provide(w: &mut World, t: &TrioH, user: &str, d: [u128; 3], slippage: Option<Decimal>) -> TxResult {
    trio_provide_ordered(w, t, user, d, slippage, false)
}
/// `d` is in the pool's asset order; with `rotated` the message lists the assets as [1], [2], [0]
pub fn trio_provide_ordered(w: &mut World, t: &TrioH, user: &str, d: [u128; 3], slippage: Option<Decimal>, rotated: bool) -> TxResult {
    let mut assets = [asset(&t.assets[0], d[0]), asset(&t.assets[1], d[1]), asset(&t.assets[2], d[2])];
    if rotated {
        assets.rotate_left(1);
    }
    for (i, a) in t.assets.iter().enumerate() {
        if let AssetInfo::Token { contract_addr } = a {
            if d[i] > 0 {
                w.cw20_allow(contract_addr, user, &t.addr, d[i]);
            }
        }
    }
    let r = w.exec(user, &t.addr, &TrioExec::ProvideLiquidity { assets: assets.clone(), slippage_tolerance: slippage, receiver: None }, &funds_for(&assets));
    if r.is_err() {
        for (i, a) in t.assets.iter().enumerate() {
            if let AssetInfo::Token { contract_addr } = a {
                if d[i] > 0 {
                    let _ = w.exec(user, contract_addr, &cw20::Cw20ExecuteMsg::DecreaseAllowance { spender: t.addr.clone(), amount: Uint128::new(d[i]), expires: None }, &[]);
                }
            }
        }
    }
    r
}
pub fn trio_withdraw(w: &mut World, t: &TrioH, user: &str, amount: u128) -> TxResult {
    w.exec(
        user,
        &t.lp,
        &cw20::Cw20ExecuteMsg::Send {
            contract: t.addr.clone(),
            amount: Uint128::new(amount),
            msg: to_json_binary(&white_whale_std::pool_network::trio::Cw20HookMsg::WithdrawLiquidity {}).unwrap(),
        },
        &[],
    )
}
#[allow(clippy::too_many_arguments)]
pub fn trio_swap(w: &mut World, t: &TrioH, user: &str, from: usize, to: usize, amount: u128, belief: Option<Decimal>, max_spread: Option<Decimal>) -> TxResult {
    match &t.assets[from] {
        AssetInfo::NativeToken { denom } => w.exec(
            user,
            &t.addr,
            &TrioExec::Swap { offer_asset: asset(&t.assets[from], amount), ask_asset: t.assets[to].clone(), belief_price: belief, max_spread, to: None },
            &[coin(amount, denom)],
        ),
        AssetInfo::Token { contract_addr } => w.exec(
            user,
            contract_addr,
            &cw20::Cw20ExecuteMsg::Send {
                contract: t.addr.clone(),
                amount: Uint128::new(amount),
                msg: to_json_binary(&white_whale_std::pool_network::trio::Cw20HookMsg::Swap { ask_asset: t.assets[to].clone(), belief_price: belief, max_spread, to: None }).unwrap(),
            },
            &[],
        ),
    }
}

/// ExecuteMsg::Swap offering `amount` bank coins whose denom is the contract address of the pool's cw20 asset `idx`
pub fn addr_coin_swap(w: &mut World, t: &TrioH, user: &str, idx: usize, to: usize, amount: u128) -> Option<TxResult> {
    let denom = match &t.assets[idx] {
        AssetInfo::Token { contract_addr } => contract_addr.clone(),
        _ => return None,
    };
    Some(w.exec(
        user,
        &t.addr,
        &TrioExec::Swap { offer_asset: asset(&native(&denom), amount), ask_asset: t.assets[to].clone(), belief_price: loose_belief(), max_spread: Some(Decimal::percent(50)), to: None },
        &[coin(amount, &denom)],
    ))
}

pub fn d_raw(amp: u64, r: &[u128; 3]) -> U1024 {
    refmath::stable_d(amp, &[b(r[0]), b(r[1]), b(r[2])])
}

impl TrioScn {
    pub fn deploy(&self, r: &TrioRoot, w: &mut World) -> TH {
        let hub = deploy_pool_hub(w, &[(TD[0], 6), (TD[1], 6), (TD[2], 6)]);
        let a2 = if r.with_cw20 { token(&w.new_cw20("tcc", 6, &[], OWNER)) } else { native(TD[2]) };
        let assets = [native(TD[0]), native(TD[1]), a2];
        for u in USERS.iter().chain([MALLORY].iter()) {
            for a in &assets {
                fund(w, a, u, BIG_FUND);
            }
        }
        for a in &assets {
            if let AssetInfo::Token { contract_addr } = a {
                w.mint_native(MALLORY, BIG_FUND, contract_addr);
            }
        }
        let trio = create_trio(w, &hub, assets, r.fees.trio(), r.amp).expect("create trio");
        TH { hub, trio, root: r.clone() }
    }
}

fn shape3(shape: &str, r: [u128; 3]) -> [u128; 3] {
    let m = |x: u128| x.max(1);
    match shape.trim_end_matches("@rot") {
        "prop1" => [m(r[0] / 100), m(r[1] / 100), m(r[2] / 100)],
        "prop100" => [m(r[0]), m(r[1]), m(r[2])],
        "single" => [m(r[0] / 10), 1, 1],
        "single2" => [1, 1, m(r[2] / 3)],
        "ones" => [1, 1, 1],
        "first_small" => [1001, 1001, 1001],
        "first_mid" => [1_000_000, 2_000_000, 3_000_000],
        _ => [1, 1, 1],
    }
}

impl Scenario for TrioScn {
    type Action = TAct;
    type Ghost = TG;
    type Handles = TH;

    fn name(&self) -> String {
        format!(
            "trio-{}{}",
            self.property,
            match self.probe {
                Probe::None => "",
                Probe::SimEqExec => "-sim",
                Probe::Spread => "-spread",
            }
        )
    }
    fn root_labels(&self) -> Vec<String> {
        self.roots.iter().map(|r| r.label.clone()).collect()
    }
    fn setup(&self, root: usize, w: &mut World) -> (TH, TG) {
        let r = &self.roots[root];
        let h = self.deploy(r, w);
        if r.first != [0, 0, 0] {
            trio_provide(w, &h.trio, ALICE, r.first, None).unwrap_or_else(|e| panic!("trio root deposit {:?}", e));
            if r.pre_swaps {
                let (res, _) = trio_pool(w, &h.trio.addr).unwrap();
                let _ = trio_swap(w, &h.trio, BOB, 0, 1, (res[0] / 50).max(2), loose_belief(), None);
                let _ = trio_swap(w, &h.trio, CAROL, 2, 0, (res[2] / 40).max(2), loose_belief(), None);
            }
        }
        if let Some(target) = r.mid_ramp_to {
            let fb = w.height() + 20_000;
            w.exec(
                OWNER,
                &h.hub.factory,
                &white_whale_std::pool_network::factory::ExecuteMsg::UpdateTrioConfig { trio_addr: h.trio.addr.clone(), owner: None, fee_collector_addr: None, pool_fees: None, feature_toggle: None, amp_factor: Some(RampAmp { future_a: target, future_block: fb }) },
                &[],
            )
            .expect("root ramp");
            // about 7000 blocks in, on the last block before the (integer) effective amplification takes its next step:
            // anything that looks one block ahead or behind sees a different amp there
            let c = trio_config(w, &h.trio.addr);
            let h0 = w.height();
            let mut d = 7000u64;
            while d < 19_000 && effective_amp(&c, h0 + d + 1) == effective_amp(&c, h0 + d) {
                d += 1;
            }
            w.advance(d * 6_000_000_000, d);
        }
        let burned = trio_burned(w, &h.trio.addr).unwrap();
        let mut supply0 = [0u128; 3];
        for i in 0..3 {
            supply0[i] = info_supply(w, &h.trio.assets[i]) + burned[i];
        }
        let g = TG { locked: w.cw20_balance(&h.trio.lp, &h.trio.addr), charged: trio_fees(w, &h.trio.addr, true).unwrap(), burned, supply0 };
        (h, g)
    }

    fn actions(&self, w: &World, h: &TH, _g: &TG, _depth: usize) -> Vec<TAct> {
        let mut v = vec![];
        let (res, supply) = match trio_pool(w, &h.trio.addr) {
            Ok(x) => x,
            Err(_) => return v,
        };
        let c07 = self.property == "C07";
        if supply == 0 {
            for s in ["ones", "first_small", "first_mid"] {
                v.push(TAct::Provide { user: ALICE.to_string(), shape: s.to_string() });
            }
        } else {
            // swaps: all six directions for alice, fewer amounts for others
            for from in 0..3usize {
                for to in 0..3usize {
                    if from == to {
                        continue;
                    }
                    let r = res[from];
                    let mut amts: Vec<u128> = if c07 {
                        let pshare = h.root.fees.protocol.max(1);
                        let mut a = vec![999u128];
                        for t in [500u128, 1000, 1001, 1_000_000] {
                            a.push((b(t) * b(ONE18) / b(pshare)).low_u128().max(2));
                        }
                        a.retain(|x| *x < r.saturating_mul(20));
                        if from != 0 && to != 0 {
                            a.truncate(2);
                        }
                        a
                    } else {
                        vec![1, 1000, (r / 100).max(2), (r / 2).max(3), r.saturating_mul(10).max(4)]
                    };
                    amts.sort();
                    amts.dedup();
                    for a in amts {
                        v.push(TAct::Swap { user: ALICE.to_string(), from, to, amount: a.to_string() });
                    }
                }
            }
            if !c07 && _depth <= 1 && h.root.fees.protocol > 0 {
                // a swap sized (by bisection on the pool's own Simulation, which is monotone in the offer) so that the
                // protocol fee owed in asset 1 lands exactly on the collection threshold of 1000
                if let Ok(pending) = trio_fees(w, &h.trio.addr, false) {
                    if pending[1] < 1000 {
                        let target = 1000 - pending[1];
                        let fee_of = |amt: u128| -> Option<u128> {
                            let sim: Result<SimulationResponse, String> = w.query(&h.trio.addr, &TrioQuery::Simulation { offer_asset: asset(&h.trio.assets[0], amt), ask_asset: asset(&h.trio.assets[1], 0) });
                            sim.ok().map(|s| s.protocol_fee_amount.u128())
                        };
                        let (mut lo, mut hi) = (1u128, res[0].saturating_mul(4).max(2));
                        while lo < hi {
                            let mid = lo + (hi - lo) / 2;
                            match fee_of(mid) {
                                Some(f) if f >= target => hi = mid,
                                Some(_) => lo = mid + 1,
                                None => hi = mid,
                            }
                        }
                        if fee_of(lo) == Some(target) {
                            v.push(TAct::Swap { user: ALICE.to_string(), from: 0, to: 1, amount: lo.to_string() });
                        }
                    }
                }
            }
            if !c07 && matches!(h.trio.assets[2], AssetInfo::Token { .. }) {
                v.push(TAct::SwapAddrCoin { user: MALLORY.to_string(), to: 0 });
            }
            if !c07 {
                v.push(TAct::Underfunded { user: BOB.to_string(), what: "swap".to_string() });
                v.push(TAct::Underfunded { user: BOB.to_string(), what: "swap_nothing_attached".to_string() });
                v.push(TAct::Underfunded { user: BOB.to_string(), what: "provide".to_string() });
                // a deposit whose third entry is not the pool's third asset (a token the pool does not hold / the first entry again);
                // the first two entries are pool assets and are paid for
                v.push(TAct::Underfunded { user: BOB.to_string(), what: "provide_third_entry_foreign".to_string() });
                v.push(TAct::Underfunded { user: BOB.to_string(), what: "provide_first_entry_twice".to_string() });
            }
            if !c07 {
                v.push(TAct::Swap { user: BOB.to_string(), from: 0, to: 2, amount: (res[0] / 100).max(2).to_string() });
                v.push(TAct::Swap { user: CAROL.to_string(), from: 2, to: 1, amount: (res[2] / 100).max(2).to_string() });
            }
            // "@rot": the same amounts with the assets listed in rotated order in the message
            let shapes: &[&str] = if c07 { &["prop1"] } else { &["prop1", "prop100", "single", "single2", "single@rot", "ones"] };
            for s in shapes {
                v.push(TAct::Provide { user: ALICE.to_string(), shape: s.to_string() });
            }
            if !c07 {
                v.push(TAct::Provide { user: BOB.to_string(), shape: "prop1".to_string() });
                v.push(TAct::Provide { user: CAROL.to_string(), shape: "single".to_string() });
            }
            for u in USERS.iter() {
                let bal = w.cw20_balance(&h.trio.lp, u);
                if bal > 0 {
                    let parts: &[&str] = if c07 { &["half"] } else { &["all", "half", "one"] };
                    for p in parts {
                        if *p == "half" && bal < 2 {
                            continue;
                        }
                        v.push(TAct::Withdraw { user: u.to_string(), part: p.to_string() });
                    }
                }
            }
        }
        v.push(TAct::Collect { user: MALLORY.to_string() });
        for i in 0..self.fee_alphabet.len() {
            v.push(TAct::SetFees { idx: i });
        }
        if self.with_ramps {
            for kind in ["cur/10", "cur/10-1", "cur*10", "cur*10+1", "zero", "one", "max", "max+1", "cur/2", "cur*2"] {
                for db in [9999u64, 10000, 50000] {
                    if db == 50000 && !matches!(kind, "cur/10" | "cur*10" | "cur/2") {
                        continue;
                    }
                    v.push(TAct::Ramp { kind: kind.to_string(), dblocks: db });
                }
            }
            for n in [1u64, 5000, 10000, 50000] {
                v.push(TAct::AdvanceBlocks { n });
            }
        }
        v
    }

    fn step(&self, w: &mut World, h: &TH, g: &mut TG, a: &TAct, cx: &mut Cx) {
        let t = &h.trio;
        let pre = trio_pool(w, &t.addr).ok();
        let pre_pending = trio_fees(w, &t.addr, false).unwrap_or([0; 3]);
        let cfg0 = trio_config(w, &t.addr);
        let amp = effective_amp(&cfg0, w.height());
        let c04 = self.property == "C04";
        let c07 = self.property == "C07";
        let mut pool_op = true;
        match a {
            TAct::Provide { user, shape } => {
                let (res, supply) = pre.unwrap();
                let d = shape3(shape, res);
                let lpb = w.cw20_balance(&t.lp, user);
                match trio_provide_ordered(w, t, user, d, None, shape.ends_with("@rot")) {
                    Ok(_) => {
                        cx.count("provide:ok");
                        let minted = w.cw20_balance(&t.lp, user) - lpb;
                        if supply == 0 {
                            cx.count("provide:first");
                            if c04 {
                                let locked = w.cw20_balance(&t.lp, &t.addr);
                                cx.check("first_deposit.locks_minimum", locked == 3000, || format!("trio holds {} LP after first deposit", locked));
                            }
                        } else if c04 {
                            let d0 = d_raw(amp, &res);
                            let d1 = d_raw(amp, &[res[0] + d[0], res[1] + d[1], res[2] + d[2]]);
                            let lhs = b(minted) * d0;
                            let mut dust = b(TRIO_DUST);
                            if lhs > b(supply) * (d1.saturating_sub(d0) + dust) {
                                dust = slope_dust(amp, &res);
                            }
                            let rhs = b(supply) * (d1.saturating_sub(d0) + dust);
                            cx.check("deposit.mints_at_most_invariant_growth", lhs <= rhs, || format!("deposit {:?} into {:?} supply {} amp {}: minted {} but D {} -> {} (dust {})", d, res, supply, amp, minted, d0, d1, dust));
                        }
                    }
                    Err(e) => {
                        cx.count(if e.is_panic() { "provide:panic" } else { "provide:rejected" });
                        cx.note(|| format!("rejected: {}", e.msg()));
                    }
                }
            }
            TAct::Withdraw { user, part } => {
                let (res, supply) = pre.unwrap();
                let bal = w.cw20_balance(&t.lp, user);
                let amt = match part.as_str() {
                    "all" => bal,
                    "half" => bal / 2,
                    _ => 1,
                };
                let ub: Vec<u128> = (0..3).map(|i| info_balance(w, &t.assets[i], user)).collect();
                match trio_withdraw(w, t, user, amt) {
                    Ok(_) => {
                        cx.count("withdraw:ok");
                        if c04 {
                            for i in 0..3 {
                                let got = info_balance(w, &t.assets[i], user) - ub[i];
                                let max = (b(res[i]) * b(amt) / b(supply)).low_u128();
                                cx.check("withdraw.at_most_pro_rata", got <= max, || format!("withdraw {} of {}: asset {} paid {} > pro-rata {}", amt, supply, i, got, max));
                            }
                        }
                    }
                    Err(e) => {
                        cx.count("withdraw:rejected");
                        cx.note(|| format!("rejected: {}", e.msg()));
                    }
                }
            }
            TAct::SwapAddrCoin { user, to } => {
                let (res, _) = pre.unwrap();
                let amt = (res[2] / 10).max(2);
                let ub: Vec<u128> = t.assets.iter().map(|a| info_balance(w, a, user)).collect();
                match addr_coin_swap(w, t, user, 2, *to, amt) {
                    Some(Ok(_)) => {
                        cx.count("addr_coin_swap:accepted");
                        let ua: Vec<u128> = t.assets.iter().map(|a| info_balance(w, a, user)).collect();
                        cx.check("swap.proceeds_only_for_pool_assets", (0..3).all(|i| ua[i] <= ub[i]), || {
                            format!("a swap offering {} bank coins spelled like the address of the pool's cw20 asset (not a pool asset) was accepted and paid the sender: pool-asset balances {:?} -> {:?}", amt, ub, ua)
                        });
                    }
                    Some(Err(_)) => cx.count("addr_coin_swap:rejected"),
                    None => {}
                }
            }
            TAct::Underfunded { user, what } => {
                pool_op = false;
                let (res, _) = pre.unwrap();
                // asset 0 is always native
                let denom0 = match &t.assets[0] {
                    AssetInfo::NativeToken { denom } => denom.clone(),
                    _ => return,
                };
                let ub: Vec<u128> = t.assets.iter().map(|a| info_balance(w, a, user)).collect();
                let lpb = w.cw20_balance(&t.lp, user);
                let declared = (res[0] / 10).max(2);
                let r = if what == "swap_nothing_attached" {
                    w.exec(user, &t.addr, &TrioExec::Swap { offer_asset: asset(&t.assets[0], declared), ask_asset: t.assets[1].clone(), belief_price: loose_belief(), max_spread: Some(Decimal::percent(50)), to: None }, &[])
                } else if what == "swap" {
                    w.exec(
                        user,
                        &t.addr,
                        &TrioExec::Swap { offer_asset: asset(&t.assets[0], declared), ask_asset: t.assets[1].clone(), belief_price: loose_belief(), max_spread: Some(Decimal::percent(50)), to: None },
                        &[coin(1, &denom0)],
                    )
                } else if what == "provide_third_entry_foreign" || what == "provide_first_entry_twice" {
                    let d = [declared, (res[1] / 10).max(2), (res[2] / 10).max(2)];
                    let third = if what == "provide_third_entry_foreign" { AssetInfo::Token { contract_addr: "unrelatedtoken".to_string() } } else { t.assets[0].clone() };
                    let assets = [asset(&t.assets[0], d[0]), asset(&t.assets[1], d[1]), asset(&third, d[2])];
                    let mut funds = vec![];
                    for (i, a) in t.assets.iter().enumerate().take(2) {
                        match a {
                            AssetInfo::NativeToken { denom } => funds.push(coin(d[i], denom)),
                            AssetInfo::Token { contract_addr } => w.cw20_allow(contract_addr, user, &t.addr, d[i]),
                        }
                    }
                    funds.sort_by(|a, b| a.denom.cmp(&b.denom));
                    let r = w.exec(user, &t.addr, &TrioExec::ProvideLiquidity { assets, slippage_tolerance: None, receiver: None }, &funds);
                    let ua: Vec<u128> = t.assets.iter().map(|a| info_balance(w, a, user)).collect();
                    match &r {
                        Ok(_) => {
                            cx.count("underfunded:accepted");
                            let gained_lp = w.cw20_balance(&t.lp, user) - lpb;
                            cx.check("funds.declared_native_amount_was_attached", gained_lp == 0 || (0..3).all(|i| ub[i] - ua[i] == d[i]), || {
                                format!("{}: deposit {:?} whose third entry is {:?} was accepted: user balances {:?} -> {:?}, LP +{}", what, d, third, ub, ua, gained_lp)
                            });
                        }
                        Err(_) => {
                            cx.count("underfunded:rejected");
                            for a in t.assets.iter() {
                                if let AssetInfo::Token { contract_addr } = a {
                                    let _ = w.exec(user, contract_addr, &cw20::Cw20ExecuteMsg::DecreaseAllowance { spender: t.addr.clone(), amount: Uint128::new(u128::MAX), expires: None }, &[]);
                                }
                            }
                        }
                    }
                    return;
                } else {
                    let d = [declared, (res[1] / 10).max(2), (res[2] / 10).max(2)];
                    let assets = [asset(&t.assets[0], d[0]), asset(&t.assets[1], d[1]), asset(&t.assets[2], d[2])];
                    let mut funds = vec![];
                    for a in t.assets.iter() {
                        match a {
                            AssetInfo::NativeToken { denom } => funds.push(coin(1, denom)),
                            AssetInfo::Token { contract_addr } => w.cw20_allow(contract_addr, user, &t.addr, d[2]),
                        }
                    }
                    funds.sort_by(|a, b| a.denom.cmp(&b.denom));
                    w.exec(user, &t.addr, &TrioExec::ProvideLiquidity { assets, slippage_tolerance: None, receiver: None }, &funds)
                };
                let ua: Vec<u128> = t.assets.iter().map(|a| info_balance(w, a, user)).collect();
                match &r {
                    Ok(_) => {
                        cx.count("underfunded:accepted");
                        let gained_lp = w.cw20_balance(&t.lp, user) - lpb;
                        let paid0 = ub[0] - ua[0];
                        cx.check("funds.declared_native_amount_was_attached", paid0 == declared, || {
                            format!("{} declaring {} of the native asset with 1 unit attached was accepted: user paid {}, received {:?}, LP +{}", what, declared, paid0, (ua[1].saturating_sub(ub[1]), ua[2].saturating_sub(ub[2])), gained_lp)
                        });
                    }
                    Err(_) => {
                        cx.count("underfunded:rejected");
                        for a in t.assets.iter() {
                            if let AssetInfo::Token { contract_addr } = a {
                                let _ = w.exec(user, contract_addr, &cw20::Cw20ExecuteMsg::DecreaseAllowance { spender: t.addr.clone(), amount: Uint128::new(u128::MAX), expires: None }, &[]);
                            }
                        }
                    }
                }
            }
            TAct::Swap { user, from, to, amount } => {
                let amount: u128 = amount.parse().unwrap();
                let ub = [info_balance(w, &t.assets[*from], user), info_balance(w, &t.assets[*to], user)];
                match trio_swap(w, t, user, *from, *to, amount, loose_belief(), None) {
                    Ok(resp) => {
                        cx.count("swap:ok");
                        let ret = attr_u128(&resp, Some(&t.addr), "swap", "return_amount").unwrap_or(u128::MAX);
                        let sf = attr_u128(&resp, Some(&t.addr), "swap", "swap_fee_amount").unwrap_or(0);
                        let pf = attr_u128(&resp, Some(&t.addr), "swap", "protocol_fee_amount").unwrap_or(0);
                        let bf = attr_u128(&resp, Some(&t.addr), "swap", "burn_fee_amount").unwrap_or(0);
                        g.charged[*to] += pf;
                        g.burned[*to] += bf;
                        if pf > 0 {
                            cx.count("swap:protocol_fee>0");
                        }
                        if bf > 0 {
                            cx.count("swap:burn_fee>0");
                        }
                        if c04 {
                            let ua = [info_balance(w, &t.assets[*from], user), info_balance(w, &t.assets[*to], user)];
                            cx.check("swap.user_deltas", ub[0] - ua[0] == amount && ua[1] - ub[1] == ret, || format!("offer {} return {} but user deltas -{} +{}", amount, ret, ub[0] - ua[0], ua[1] - ub[1]));
                            let (res, _) = pre.unwrap();
                            let gross = ret + sf + pf + bf;
                            // proceeds + fees == what the curve step took out of the reported ask reserve
                            if let Ok((res1, _)) = trio_pool(w, &t.addr) {
                                cx.check("swap.proceeds_plus_fees_equal_reserve_change", res[*to] - res1[*to] == gross - sf && res1[*from] - res[*from] == amount, || {
                                    format!("reserves {:?} -> {:?}: ask reserve fell by {} but return {} + protocol {} + burn {} (swap fee {} stays)", res, res1, res[*to] - res1[*to], ret, pf, bf, sf)
                                });
                            }
                            // curve output, solved independently (bisection, 1e-6 unit resolution) at the
                            // operation's amp; rounding dust = a few base units scaled by the local slope
                            let k = 1_000_000u128;
                            let other = 3 - from - to;
                            let dk = refmath::stable_d(amp, &[b(res[0]) * b(k), b(res[1]) * b(k), b(res[2]) * b(k)]);
                            let y_exact_k = refmath::stable_y(amp, dk, &[(b(res[*from]) + b(amount)) * b(k), b(res[other]) * b(k)]);
                            let y_next_k = refmath::stable_y(amp, dk, &[(b(res[*from]) + b(1)) * b(k), b(res[other]) * b(k)]);
                            let dest = b(res[*to]);
                            let slope = ((dest * b(k)).saturating_sub(y_next_k) + b(k - 1)) / b(k);
                            let slope = if slope < b(1) { b(1) } else { slope };
                            let delta = b(2) + b(2) * slope;
                            let y_floor = y_exact_k / b(k);
                            let y_ceil = (y_exact_k + b(k - 1)) / b(k);
                            let left = dest - b(gross);
                            if slope > b(1) {
                                cx.count("swap:slope>1");
                            }
                            let rmax = *res.iter().max().unwrap();
                            let rmin = *res.iter().min().unwrap();
                            let sig_curve = if rmax / rmin.max(1) >= 1000 { "inexact-math@extreme-imbalance" } else { "" };
                            cx.check_sig("swap.pool_keeps_curve_reserve", sig_curve, left + delta >= y_ceil, || {
                                format!("swap {}->{} offer {} amp {} reserves {:?}: gross out {} leaves {} < curve reserve {} - dust {} (slope {})", from, to, amount, amp, res, gross, left, y_ceil, delta, slope)
                            });
                            // (the pool keeping *more* than the curve requires is not a leak; with a nearly
                            // drained third reserve the contract's truncated D does exactly that — counted only)
                            if left > y_floor + delta + b(1) {
                                cx.count("swap:pool_keeps_more_than_curve");
                            }
                            let f = &cfg0.pool_fees;
                            let fee = |s: cosmwasm_std::Decimal| (b(gross) * b(s.atomics().u128()) / b(ONE18)).low_u128();
                            cx.check("swap.fees_are_floor_share_of_gross", sf == fee(f.swap_fee.share) && pf == fee(f.protocol_fee.share) && bf == fee(f.burn_fee.share), || {
                                format!("gross {}: fees swap {} protocol {} burn {} != floor(share*gross)", gross, sf, pf, bf)
                            });
                            // there and straight back, on a copy
                            if ret > 0 {
                                let snap = w.kv_clone();
                                let b0 = info_balance(w, &t.assets[*from], user);
                                if trio_swap(w, t, user, *to, *from, ret, loose_belief(), None).is_ok() {
                                    let back = info_balance(w, &t.assets[*from], user) - b0;
                                    cx.count("probe:there_and_back");
                                    // known-finding class: gain of at most two base units of the intermediate
                                    // asset valued at the realised price, in a pool where that price is >= 2
                                    // known-finding classes. Dust: the realised exchange rate of one of the two legs is
                                    // >= 2 (local slope above 1, i.e. one base unit of one asset is worth several of the
                                    // other) and the gain is at most four units of the offered asset plus four units of the
                                    // intermediate asset at that rate, or (large swaps) at most 1e-6 of the amount — the relative
                                    // precision lost by the truncating divisions. Extreme: one reserve nearly drained.
                                    let price = ((back + ret - 1) / ret.max(1)).max(1);
                                    let price_up = ((ret + amount - 1) / amount.max(1)).max(1);
                                    let rmax = *res.iter().max().unwrap();
                                    let rmin = *res.iter().min().unwrap();
                                    let ratio = rmax / rmin.max(1);
                                    let sig = if ratio >= 1000 {
                                        "inexact-math-profit@extreme-imbalance"
                                    } else if (price >= 2 || price_up >= 2 || ratio >= 4) && back <= amount + (4 * price + 4).max(amount / 1_000_000) {
                                        "rounding-dust-profit@imbalanced"
                                    } else {
                                        ""
                                    };
                                    cx.check_sig("roundtrip.no_gain", sig, back <= amount, || format!("reserves {:?} amp {}: swap {}->{} of {} returned {}, swapping back returned {}", res, amp, from, to, amount, ret, back));
                                }
                                w.kv_restore(&snap);
                            }
                        }
                    }
                    Err(e) => {
                        cx.count(if e.is_panic() { "swap:panic" } else { "swap:rejected" });
                        cx.note(|| format!("rejected: {}", e.msg()));
                    }
                }
            }
            TAct::Collect { user } => {
                let holders: Vec<&str> = vec![ALICE, BOB, CAROL, MALLORY, OWNER, &h.hub.factory];
                let cb: Vec<u128> = (0..3).map(|i| info_balance(w, &t.assets[i], &h.hub.collector)).collect();
                let ob: Vec<Vec<u128>> = holders.iter().map(|x| (0..3).map(|i| info_balance(w, &t.assets[i], x)).collect()).collect();
                match w.exec(user, &t.addr, &TrioExec::CollectProtocolFees {}, &[]) {
                    Ok(_) => {
                        cx.count("collect:ok");
                        if pre_pending.iter().any(|x| *x > 0) {
                            cx.count("collect:nonzero");
                        }
                        if pre_pending.iter().any(|x| *x > 0 && *x <= 1000) {
                            cx.count("collect:sub_threshold_pending");
                        }
                        if c07 {
                            let post_pending = trio_fees(w, &t.addr, false).unwrap_or([0; 3]);
                            for i in 0..3 {
                                let ca = info_balance(w, &t.assets[i], &h.hub.collector);
                                let sig = if pre_pending[i] <= 1000 { "pending<=1000" } else { "" };
                                cx.check_sig("collect.transfers_exactly_the_ledger_decrease", sig, ca - cb[i] == pre_pending[i] - post_pending[i], || {
                                    format!("collector got {} of asset {} but the pending ledger went {} -> {}", ca - cb[i], i, pre_pending[i], post_pending[i])
                                });
                            }
                            let oa: Vec<Vec<u128>> = holders.iter().map(|x| (0..3).map(|i| info_balance(w, &t.assets[i], x)).collect()).collect();
                            cx.check("collect.nobody_else_is_paid", oa == ob, || "other balances changed on collect".to_string());
                            if let (Some((r0, s0)), Ok((r1, s1))) = (pre, trio_pool(w, &t.addr)) {
                                let sig = if pre_pending.iter().any(|x| *x <= 1000) { "pending<=1000" } else { "" };
                                cx.check_sig("collect.lp_reserves_unchanged", sig, r0 == r1 && s0 == s1, || format!("reported reserves changed on collect: {:?} -> {:?}", r0, r1));
                            }
                        }
                    }
                    Err(e) => {
                        cx.count("collect:rejected");
                        cx.note(|| format!("rejected: {}", e.msg()));
                    }
                }
            }
            TAct::SetFees { idx } => {
                let f = self.fee_alphabet[*idx];
                let r = w.exec(
                    OWNER,
                    &h.hub.factory,
                    &white_whale_std::pool_network::factory::ExecuteMsg::UpdateTrioConfig { trio_addr: t.addr.clone(), owner: None, fee_collector_addr: None, pool_fees: Some(f.trio()), feature_toggle: None, amp_factor: None },
                    &[],
                );
                cx.count(if r.is_ok() { "setfees:ok" } else { "setfees:rejected" });
            }
            TAct::Ramp { kind, dblocks } => {
                pool_op = false;
                let cur = amp;
                let future_a: u64 = match kind.as_str() {
                    "cur/10" => cur / 10,
                    "cur/10-1" => (cur / 10).saturating_sub(1),
                    "cur*10" => cur * 10,
                    "cur*10+1" => cur * 10 + 1,
                    "zero" => 0,
                    "one" => 1,
                    "max" => 1_000_000,
                    "max+1" => 1_000_001,
                    "cur/2" => cur / 2,
                    "cur*2" => cur * 2,
                    _ => cur,
                };
                let future_block = w.height() + dblocks;
                let r = w.exec(
                    OWNER,
                    &h.hub.factory,
                    &white_whale_std::pool_network::factory::ExecuteMsg::UpdateTrioConfig {
                        trio_addr: t.addr.clone(),
                        owner: None,
                        fee_collector_addr: None,
                        pool_fees: None,
                        feature_toggle: None,
                        amp_factor: Some(RampAmp { future_a, future_block }),
                    },
                    &[],
                );
                // documented rule: within [1,1e6], at most a factor 10 from the current value, over >= 10000 blocks
                let within = (1..=1_000_000).contains(&future_a);
                let factor_ok = if future_a >= cur { (future_a as u128) <= (cur as u128) * 10 } else { (future_a as u128) * 10 >= cur as u128 };
                let should = within && factor_ok && *dblocks >= 10_000;
                let sig = if future_a < cur { "ramp-down" } else { "" };
                // the property states one direction only: a ramp is *only accepted* within the bounds
                cx.check_sig("ramp.accepted_only_within_bounds", sig, !r.is_ok() || should, || {
                    format!("ramp from effective amp {} to {} over {} blocks was accepted although it is outside the documented bounds ([1,1e6], factor <= 10, >= 10000 blocks)", cur, future_a, dblocks)
                });
                if r.is_err() && should {
                    // not demanded by the property; reported as a counter only
                    cx.count("ramp:rejected_although_within_bounds");
                }
                cx.count(if r.is_ok() { "ramp:accepted" } else { "ramp:rejected" });
                if r.is_ok() {
                    let c = trio_config(w, &t.addr);
                    cx.check("ramp.starts_from_current_value", c.initial_amp == cur && c.future_amp == future_a && c.initial_amp_block == w.height() && c.future_amp_block == future_block, || {
                        format!("after ramp: config {:?} (expected start {} at {}, target {} at {})", (c.initial_amp, c.future_amp, c.initial_amp_block, c.future_amp_block), cur, w.height(), future_a, future_block)
                    });
                }
            }
            TAct::AdvanceBlocks { n } => {
                pool_op = false;
                w.advance(n * 6_000_000_000, *n);
                cx.count("advance");
            }
        }
        // LP value: D/S non-decreasing across every pool operation (same block ⇒ same amp)
        if c04 && pool_op {
            if let (Some((r0, s0)), Ok((r1, s1))) = (pre, trio_pool(w, &t.addr)) {
                if s0 > 0 && s1 > 0 {
                    let d0 = d_raw(amp, &r0);
                    let d1 = d_raw(amp, &r1);
                    let rhs = d0 * b(s1);
                    let mut dust = b(TRIO_DUST);
                    if (d1 + dust) * b(s0) < rhs {
                        dust = slope_dust(amp, &r0);
                        cx.count("lp_value:slope_dust_used");
                    }
                    let lhs = (d1 + dust) * b(s0);
                    cx.check("lp_value.non_decreasing", lhs >= rhs, || format!("{:?}: D/S fell at amp {}: {:?}/{} (D {}) -> {:?}/{} (D {}), dust {}", a, amp, r0, s0, d0, r1, s1, d1, dust));
                }
            }
        }
        let locked = w.cw20_balance(&t.lp, &t.addr);
        cx.check("min_liquidity.never_decreases", locked >= g.locked, || format!("trio-held LP {} -> {}", g.locked, locked));
        g.locked = locked;
        self.keep_own(cx);
    }

    fn invariants(&self, w: &mut World, h: &TH, g: &TG, cx: &mut Cx) {
        let t = &h.trio;
        match trio_pool(w, &t.addr) {
            Err(e) => cx.violate("pool_query.succeeds", "", format!("Pool query failed: {e}")),
            Ok((res, supply)) => {
                let pending = trio_fees(w, &t.addr, false).unwrap_or([u128::MAX; 3]);
                for i in 0..3 {
                    let bal = info_balance(w, &t.assets[i], &t.addr);
                    cx.check("solvent.balance_covers_reserve_plus_fees", pending[i] != u128::MAX && bal >= res[i].saturating_add(pending[i]), || {
                        format!("asset {}: balance {} < reserve {} + pending {}", i, bal, res[i], pending[i])
                    });
                }
                if supply > 0 {
                    cx.check("min_liquidity.locked", w.cw20_balance(&t.lp, &t.addr) >= 3000, || "trio holds < 3000 LP".to_string());
                }
                if self.property == "C04" {
                    let c = trio_config(w, &t.addr);
                    let eff = effective_amp(&c, w.height());
                    let lo = c.initial_amp.min(c.future_amp);
                    let hi = c.initial_amp.max(c.future_amp);
                    cx.check("amp.between_start_and_target", lo <= eff && eff <= hi && (1..=1_000_000).contains(&eff), || format!("effective amp {} outside [{}, {}]", eff, lo, hi));
                    // the contract's own amp at this height (hook) equals the independent linear interpolation
                    let code = stableswap_3pool::verif_hooks::StableSwap::new(c.initial_amp, c.future_amp, w.height(), c.initial_amp_block, c.future_amp_block).compute_amp_factor();
                    cx.check("amp.linear_in_block_height", code == Some(eff), || format!("compute_amp_factor {:?} != linear interpolation {} (config {:?}, height {})", code, eff, (c.initial_amp, c.future_amp, c.initial_amp_block, c.future_amp_block), w.height()));
                    if c.initial_amp != c.future_amp && w.height() > c.initial_amp_block && w.height() < c.future_amp_block {
                        cx.count("amp:mid_ramp_state");
                    }
                }
                if self.property == "C07" {
                    let all_time = trio_fees(w, &t.addr, true).unwrap_or([u128::MAX; 3]);
                    let burned = trio_burned(w, &t.addr).unwrap_or([u128::MAX; 3]);
                    for i in 0..3 {
                        let coll = info_balance(w, &t.assets[i], &h.hub.collector);
                        cx.check("ledger.pending_is_charged_minus_transferred", pending[i] == g.charged[i].wrapping_sub(coll), || {
                            format!("asset {}: pending ledger {} != charged {} - transferred {}", i, pending[i], g.charged[i], coll)
                        });
                        cx.check("ledger.all_time_is_sum_of_charges", all_time[i] == g.charged[i], || format!("asset {}: all-time {} != charges {}", i, all_time[i], g.charged[i]));
                        cx.check("ledger.burned_is_sum_of_burns", burned[i] == g.burned[i], || format!("asset {}: burned {} != burn charges {}", i, burned[i], g.burned[i]));
                        let sup = info_supply(w, &t.assets[i]);
                        cx.check("burn.leaves_circulation", sup == g.supply0[i] - g.burned[i], || format!("asset {}: supply {} != {} - {}", i, sup, g.supply0[i], g.burned[i]));
                    }
                }
                if self.probe == Probe::SimEqExec && supply > 0 {
                    self.probe_sim(w, h, res, cx);
                }
                if self.probe == Probe::Spread && supply > 0 {
                    self.probe_spread(w, h, res, cx);
                }
            }
        }
        self.keep_own(cx);
    }
}

impl TrioScn {
    fn keep_own(&self, cx: &mut Cx) {
        let prefixes: &[&str] = match self.property.as_str() {
            "C07" => &["collect.", "ledger.", "burn."],
            "C14" => &["sim_eq_exec."],
            "C15" => &["spread."],
            _ => return,
        };
        cx.violations.retain(|v| prefixes.iter().any(|p| v.oracle.starts_with(p)));
    }
}

pub const TRIO_DUST: u128 = 8;

/// rounding dust for D comparisons: a few base units of any asset valued at the curve's
/// local slope (D-value of one more base unit of the scarcest asset)
pub fn slope_dust(amp: u64, r: &[u128; 3]) -> U1024 {
    let d = d_raw(amp, r);
    let mut m = U1024::one();
    for i in 0..3 {
        let mut r2 = *r;
        r2[i] += 1;
        let s = d_raw(amp, &r2).saturating_sub(d);
        if s > m {
            m = s;
        }
    }
    b(4) + b(4) * m
}

impl TrioScn {
    /// C15: every (max_spread, belief) pair on every direction (native offers and the cw20 Send hook): the swap
    /// succeeds iff within the documented limit judged on the amounts the pool itself quotes
    fn probe_spread(&self, w: &mut World, h: &TH, res: [u128; 3], cx: &mut Cx) {
        let t = &h.trio;
        let snap = w.kv_clone();
        let spreads: Vec<Option<u128>> = vec![None, Some(0), Some(ONE18 / 200), Some(ONE18 / 100), Some(ONE18 / 2), Some(ONE18 / 2 + 1), Some(2 * ONE18)];
        for from in 0..3usize {
            for to in 0..3usize {
                if from == to || res[from] == 0 || res[to] == 0 {
                    continue;
                }
                let r = res[from];
                let mut amts = vec![999u128, 1_000_000, (r / 10).max(2), r.max(3)];
                amts.sort();
                amts.dedup();
                for amt in amts {
                    let sim: Result<SimulationResponse, String> = w.query(&t.addr, &TrioQuery::Simulation { offer_asset: asset(&t.assets[from], amt), ask_asset: asset(&t.assets[to], 0) });
                    let s = match sim {
                        Ok(s) => s,
                        Err(_) => continue,
                    };
                    let gross = s.return_amount.u128() + s.swap_fee_amount.u128() + s.protocol_fee_amount.u128() + s.burn_fee_amount.u128();
                    let spread = s.spread_amount.u128();
                    let mut beliefs: Vec<Option<u128>> = vec![None];
                    if gross > 0 && b(amt) * b(ONE18) / b(gross) <= b(u128::MAX / 4) {
                        let px = (b(amt) * b(ONE18) / b(gross)).low_u128();
                        if px > 0 {
                            beliefs.push(Some(px));
                            beliefs.push(Some(px / 2 + 1));
                            beliefs.push(Some(px.saturating_mul(2)));
                        }
                    }
                    for ms in &spreads {
                        for bp in &beliefs {
                            let r = trio_swap(w, t, MALLORY, from, to, amt, bp.map(dec), ms.map(dec));
                            cx.count("probe:spread");
                            let verdict = refmath::spread_verdict(amt, gross, spread, *ms, *bp);
                            match (&r, verdict) {
                                (Ok(_), refmath::Spread::MustReject) => cx.check("spread.accepted_only_within_limit", false, || {
                                    format!("3pool swap {}->{} offer {} gross {} spread {} max_spread {:?} belief {:?} succeeded but exceeds the limit", from, to, amt, gross, spread, ms, bp)
                                }),
                                (Err(e), refmath::Spread::MustAccept) if e.msg().contains("Spread limit exceeded") => cx.check("spread.not_rejected_within_limit", false, || {
                                    format!("3pool swap {}->{} offer {} gross {} spread {} max_spread {:?} belief {:?} rejected for slippage although within the limit", from, to, amt, gross, spread, ms, bp)
                                }),
                                (Ok(_), _) => cx.count("probe:spread:accepted"),
                                (Err(e), _) => {
                                    if e.msg().contains("Spread limit exceeded") {
                                        cx.count("probe:spread:rejected_for_spread");
                                    }
                                }
                            }
                            w.kv_restore(&snap);
                        }
                    }
                }
            }
        }
    }

    fn probe_sim(&self, w: &mut World, h: &TH, res: [u128; 3], cx: &mut Cx) {
        let t = &h.trio;
        let snap = w.kv_clone();
        // an offer of a bank coin spelled like the address of the pool's cw20 asset: quote and execution agree (both refuse)
        if let AssetInfo::Token { contract_addr } = &t.assets[2] {
            let amt = (res[2] / 10).max(2);
            for to in 0..2usize {
                let sim: Result<SimulationResponse, String> = w.query(&t.addr, &TrioQuery::Simulation { offer_asset: asset(&native(contract_addr), amt), ask_asset: asset(&t.assets[to], 0) });
                let ex = addr_coin_swap(w, t, MALLORY, 2, to, amt).unwrap();
                cx.count("probe:sim_vs_exec:addr_coin");
                let same = match (&sim, &ex) {
                    (Err(_), Err(_)) => true,
                    (Ok(s), Ok(resp)) => attr_u128(resp, Some(&t.addr), "swap", "return_amount") == Some(s.return_amount.u128()) && attr_u128(resp, Some(&t.addr), "swap", "spread_amount") == Some(s.spread_amount.u128()),
                    _ => false,
                };
                cx.check("sim_eq_exec.same_outcome", same, || {
                    format!("trio: offer of {} bank coins named like the cw20 asset, asking asset {}: simulation {:?} but execution {:?}", amt, to, sim, ex.as_ref().map(|r| (attr_u128(r, Some(&t.addr), "swap", "return_amount"), attr_u128(r, Some(&t.addr), "swap", "spread_amount"))).map_err(|e| e.msg().to_string()))
                });
                w.kv_restore(&snap);
            }
        }
        for from in 0..3usize {
            for to in 0..3usize {
                if from == to {
                    continue;
                }
                let r = res[from];
                let mut amts = vec![999u128, 1_000_000, (r / 10).max(2), r.max(3)];
                amts.sort();
                amts.dedup();
                for amt in amts {
                    let sim: Result<SimulationResponse, String> = w.query(&t.addr, &TrioQuery::Simulation { offer_asset: asset(&t.assets[from], amt), ask_asset: asset(&t.assets[to], 0) });
                    let ub = info_balance(w, &t.assets[to], MALLORY);
                    let pb = [info_balance(w, &t.assets[from], &t.addr), info_balance(w, &t.assets[to], &t.addr)];
                    let pend_b = trio_fees(w, &t.addr, false).unwrap_or([0; 3]);
                    let ex = trio_swap(w, t, MALLORY, from, to, amt, loose_belief(), None);
                    cx.count("probe:sim_vs_exec");
                    match (&sim, &ex) {
                        (Ok(s), Ok(resp)) => {
                            cx.count("probe:sim_vs_exec:both_ok");
                            let at = |k: &str| attr_u128(resp, Some(&t.addr), "swap", k);
                            let ok = at("return_amount") == Some(s.return_amount.u128())
                                && at("spread_amount") == Some(s.spread_amount.u128())
                                && at("swap_fee_amount") == Some(s.swap_fee_amount.u128())
                                && at("protocol_fee_amount") == Some(s.protocol_fee_amount.u128())
                                && at("burn_fee_amount") == Some(s.burn_fee_amount.u128());
                            cx.check("sim_eq_exec.attributes", ok, || format!("trio {}->{} offer {}: simulation {:?} vs executed attrs", from, to, amt, s));
                            let ua = info_balance(w, &t.assets[to], MALLORY);
                            let pa = [info_balance(w, &t.assets[from], &t.addr), info_balance(w, &t.assets[to], &t.addr)];
                            let pend_a = trio_fees(w, &t.addr, false).unwrap_or([0; 3]);
                            let ok2 = ua - ub == s.return_amount.u128() && pa[0] - pb[0] == amt && pb[1] - pa[1] == s.return_amount.u128() + s.burn_fee_amount.u128() && pend_a[to] - pend_b[to] == s.protocol_fee_amount.u128();
                            cx.check("sim_eq_exec.transfers_and_ledgers", ok2, || format!("trio {}->{} offer {}: simulation {:?}; receiver +{}, pool offer +{}, pool ask -{}", from, to, amt, s, ua - ub, pa[0] - pb[0], pb[1] - pa[1]));
                        }
                        (Err(_), Err(_)) => cx.count("probe:sim_vs_exec:both_fail"),
                        (Ok(s), Err(e)) => cx.check("sim_eq_exec.same_outcome", false, || format!("trio {}->{} offer {}: simulation ok {:?} but execution failed: {}", from, to, amt, s, e.msg())),
                        (Err(e), Ok(_)) => cx.check("sim_eq_exec.same_outcome", false, || format!("trio {}->{} offer {}: simulation failed ({}) but execution succeeded", from, to, amt, e)),
                    }
                    w.kv_restore(&snap);
                }
            }
        }
    }
}
