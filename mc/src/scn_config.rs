//! C18 — stored configuration stays within its documented bounds: BFS over sequences of
//! configuration writes through every write path (direct instantiate, factory create, owner
//! update, factory-mediated update) with values on / just inside / just outside every bound.

use cosmwasm_std::{Decimal, Timestamp, Uint64};
use serde::{Deserialize, Serialize};
use white_whale_std::epoch_manager::epoch_manager::EpochConfig;
use white_whale_std::pool_network::asset::{is_factory_token, AssetInfo, PairType};

use crate::deploy::*;
use crate::engine::{Cx, Scenario};
use crate::fullhub::{deploy_full, FullHub};
use crate::scn_lair::DAY_NS;
use crate::world::{kv_equal, World};

pub fn triples() -> Vec<Fee3> {
    let o = ONE18;
    vec![
        Fee3::new(0, 0, 0),
        Fee3::new(o - 1, 0, 0),
        Fee3::new(0, o, 0),
        Fee3::new(0, 0, o + 1),
        Fee3::new(o / 2, o / 2 - 1, 0),
        Fee3::new(o / 2, o / 2, 0),
        Fee3::new(o / 2, o / 2 - 1, 1),
        Fee3::new(o / 2, o / 4, o / 4 + 1),
        Fee3::new(o / 3, o / 3, o / 3),
        Fee3::new(0, 0, o / 1000),
    ]
}
pub const AMPS: [u64; 6] = [0, 1, 1_000_000, 1_000_001, (1 << 32) + 100, u64::MAX];
// (257, 286 and 2^32+5 have a low byte, resp. low word, inside the legal range: truncating validations)
pub const GRACES: [u64; 10] = [0, 1, 2, 5, 30, 31, 257, 286, (1 << 32) + 5, u64::MAX];
pub const DURATIONS: [u64; 3] = [DAY_NS - 1, DAY_NS, 2 * DAY_NS];
pub fn growths() -> Vec<Decimal> {
    vec![Decimal::zero(), Decimal::percent(50), Decimal::one(), dec(ONE18 + 1), Decimal::percent(200)]
}
pub fn take_rates() -> Vec<Decimal> {
    vec![Decimal::zero(), dec(1), Decimal::percent(50), dec(ONE18 - 1), Decimal::one(), dec(ONE18 + 1)]
}
pub const VAULT_ASSETS: [&str; 5] = ["uplain", "factory/creator/sub", "factory/contract1/uLP", "x/y/z", "cw20"];

#[derive(Clone, Debug, Serialize, Deserialize)]
pub enum CAct {
    PairUpdate { t: usize },
    PairCreate { t: usize },
    PairInstantiate { t: usize },
    TrioUpdate { t: usize },
    TrioCreate { amp: usize, t: usize },
    TrioInstantiate { amp: usize },
    VaultCreate { asset: usize, t: usize },
    VaultUpdate { t: usize },
    VaultInstantiate { asset: usize, t: usize },
    DistGrace { g: usize },
    DistDuration { d: usize },
    DistInstantiate { g: usize, d: usize },
    LairInstantiate { growth: usize, nassets: usize },
    LairGrowth { growth: usize },
    TakeRate {
        r: usize,
        /// the same message also sets the on/off switch of the take rate (None = field absent)
        #[serde(default)]
        switch: Option<bool>,
    },
    /// amplification ramp on the most recently created trio (or the base trio) through the factory
    TrioRamp { kind: String },
    AdvanceBlocks { n: u64 },
}

#[derive(Clone, Debug, Hash, Default)]
pub struct CG {
    pub pairs: Vec<String>,
    pub trios: Vec<String>,
    pub vaults: Vec<String>,
    pub dists: Vec<(String, u64)>, // (addr, last seen grace)
    pub lairs: Vec<String>,
    pub created_pairs: usize,
    pub created_trios: usize,
}

pub struct ConfigScn {
    pub group: String,
}

const PAIR_DENOMS: [[&str; 2]; 3] = [["uluna", "uusdc"], ["uluna", "uaaa"], ["uluna", "ubbb"]];
const TRIO_DENOMS: [[&str; 3]; 2] = [["uluna", "uusdc", "uwhale"], ["uluna", "uaaa", "uwhale"]];

fn vault_asset(h: &FullHub, i: usize) -> AssetInfo {
    if VAULT_ASSETS[i] == "cw20" {
        token(&h.cw20)
    } else {
        native(VAULT_ASSETS[i])
    }
}

impl Scenario for ConfigScn {
    type Action = CAct;
    type Ghost = CG;
    type Handles = FullHub;

    fn name(&self) -> String {
        format!("config-{}", self.group)
    }
    fn root_labels(&self) -> Vec<String> {
        vec!["full hub".into()]
    }
    fn setup(&self, _root: usize, w: &mut World) -> (FullHub, CG) {
        let h = deploy_full(w);
        let grace = {
            let c: white_whale_std::fee_distributor::Config = w.query(&h.fee.distributor, &white_whale_std::fee_distributor::QueryMsg::Config {}).unwrap();
            c.grace_period.u64()
        };
        let mut g = CG {
            pairs: vec![h.pair.addr.clone()],
            trios: vec![h.trio.addr.clone()],
            vaults: vec![h.vault.vault.clone()],
            dists: vec![(h.fee.distributor.clone(), grace)],
            lairs: vec![h.fee.lair.clone()],
            ..Default::default()
        };
        if self.group == "ramps" {
            // a trio created at the top of the range (1e6) and already half-way through a ramp down to a tenth of it
            let mut cx = Cx::default();
            self.step(w, &h, &mut g, &CAct::TrioCreate { amp: 2, t: 0 }, &mut cx);
            self.step(w, &h, &mut g, &CAct::TrioRamp { kind: "/10".into() }, &mut cx);
            self.step(w, &h, &mut g, &CAct::AdvanceBlocks { n: 5_000 }, &mut cx);
            let c: white_whale_std::pool_network::trio::Config = w.query(g.trios.last().unwrap(), &white_whale_std::pool_network::trio::QueryMsg::Config {}).expect("trio config");
            assert!(g.trios.len() == 2 && c.initial_amp == 1_000_000 && c.future_amp == 100_000, "ramps root: expected a trio ramping 1e6 -> 1e5, got {:?}", (c.initial_amp, c.future_amp));
        }
        (h, g)
    }

    fn actions(&self, _w: &World, _h: &FullHub, g: &CG, _depth: usize) -> Vec<CAct> {
        let mut v = vec![];
        let nt = triples().len();
        match self.group.as_str() {
            "pools" => {
                for t in 0..nt {
                    v.push(CAct::PairUpdate { t });
                    v.push(CAct::TrioUpdate { t });
                }
                for t in [0usize, 2, 5, 6, 8] {
                    if g.created_pairs < PAIR_DENOMS.len() {
                        v.push(CAct::PairCreate { t });
                    }
                    v.push(CAct::PairInstantiate { t });
                }
                for k in ["x10", "x10+1", "max", "max+1", "x10cap", "zero", "one"] {
                    v.push(CAct::TrioRamp { kind: k.to_string() });
                }
                v.push(CAct::AdvanceBlocks { n: 10_000 });
                for amp in 0..AMPS.len() {
                    if g.created_trios < TRIO_DENOMS.len() {
                        v.push(CAct::TrioCreate { amp, t: 0 });
                        v.push(CAct::TrioCreate { amp, t: 5 });
                    }
                    v.push(CAct::TrioInstantiate { amp });
                }
            }
            "ramps" => {
                for k in ["/10", "/2", "x2", "x10", "max", "one", "same"] {
                    v.push(CAct::TrioRamp { kind: k.to_string() });
                }
                for n in [1u64, 2_500, 10_000] {
                    v.push(CAct::AdvanceBlocks { n });
                }
            }
            "vaults" => {
                for t in 0..nt {
                    v.push(CAct::VaultUpdate { t });
                }
                for asset in 0..VAULT_ASSETS.len() {
                    for t in [0usize, 3, 5, 6, 9] {
                        v.push(CAct::VaultCreate { asset, t });
                        v.push(CAct::VaultInstantiate { asset, t });
                    }
                }
            }
            _ => {
                for gi in 0..GRACES.len() {
                    v.push(CAct::DistGrace { g: gi });
                }
                for d in 0..DURATIONS.len() {
                    v.push(CAct::DistDuration { d });
                }
                for gi in [0usize, 1, 4, 5] {
                    for d in 0..DURATIONS.len() {
                        v.push(CAct::DistInstantiate { g: gi, d });
                    }
                }
                for growth in 0..growths().len() {
                    v.push(CAct::LairGrowth { growth });
                    for nassets in 0..4 {
                        if nassets == 2 || growth < 2 {
                            v.push(CAct::LairInstantiate { growth, nassets });
                        }
                    }
                }
                for r in 0..take_rates().len() {
                    v.push(CAct::TakeRate { r, switch: None });
                    v.push(CAct::TakeRate { r, switch: Some(false) });
                    v.push(CAct::TakeRate { r, switch: Some(true) });
                }
            }
        }
        v
    }

    fn step(&self, w: &mut World, h: &FullHub, g: &mut CG, a: &CAct, cx: &mut Cx) {
        let ts = triples();
        let before = w.kv_clone();
        let grace_before: Vec<u64> = g.dists.iter().map(|(a, _)| w.query::<_, white_whale_std::fee_distributor::Config>(a, &white_whale_std::fee_distributor::QueryMsg::Config {}).map(|c| c.grace_period.u64()).unwrap_or(0)).collect();
        let ok: bool = match a {
            CAct::PairUpdate { t } => w
                .exec(OWNER, &h.fee.pool_factory, &white_whale_std::pool_network::factory::ExecuteMsg::UpdatePairConfig { pair_addr: h.pair.addr.clone(), owner: None, fee_collector_addr: None, pool_fees: Some(ts[*t].pool()), feature_toggle: None }, &[])
                .is_ok(),
            CAct::TrioUpdate { t } => w
                .exec(OWNER, &h.fee.pool_factory, &white_whale_std::pool_network::factory::ExecuteMsg::UpdateTrioConfig { trio_addr: h.trio.addr.clone(), owner: None, fee_collector_addr: None, pool_fees: Some(ts[*t].trio()), feature_toggle: None, amp_factor: None }, &[])
                .is_ok(),
            CAct::PairCreate { t } => {
                let d = PAIR_DENOMS[g.created_pairs];
                let r = create_pair(w, &PoolHub { collector: h.fee.collector.clone(), factory: h.fee.pool_factory.clone() }, [native(d[0]), native(d[1])], ts[*t].pool(), PairType::ConstantProduct);
                if let Ok(p) = &r {
                    g.pairs.push(p.addr.clone());
                    g.created_pairs += 1;
                }
                r.is_ok()
            }
            CAct::PairInstantiate { t } => {
                let r = w.instantiate(
                    w.codes.pair,
                    MALLORY,
                    &white_whale_std::pool_network::pair::InstantiateMsg {
                        asset_infos: [native("uluna"), native("uwhale")],
                        token_code_id: w.codes.token,
                        asset_decimals: [6, 6],
                        pool_fees: ts[*t].pool(),
                        fee_collector_addr: h.fee.collector.clone(),
                        pair_type: PairType::StableSwap { amp: 100 },
                        token_factory_lp: false,
                    },
                    &[],
                    "direct pair",
                    None,
                );
                if let Ok(addr) = &r {
                    g.pairs.push(addr.clone());
                }
                r.is_ok()
            }
            CAct::TrioCreate { amp, t } => {
                let d = TRIO_DENOMS[g.created_trios];
                let r = create_trio(w, &PoolHub { collector: h.fee.collector.clone(), factory: h.fee.pool_factory.clone() }, [native(d[0]), native(d[1]), native(d[2])], ts[*t].trio(), AMPS[*amp]);
                if let Ok(tr) = &r {
                    g.trios.push(tr.addr.clone());
                    g.created_trios += 1;
                }
                r.is_ok()
            }
            CAct::TrioInstantiate { amp } => {
                let r = w.instantiate(
                    w.codes.trio,
                    MALLORY,
                    &white_whale_std::pool_network::trio::InstantiateMsg {
                        asset_infos: [native("uluna"), native("uwhale"), native("uusdc")],
                        token_code_id: w.codes.token,
                        asset_decimals: [6, 6, 6],
                        pool_fees: ts[0].trio(),
                        fee_collector_addr: h.fee.collector.clone(),
                        amp_factor: AMPS[*amp],
                        token_factory_lp: false,
                    },
                    &[],
                    "direct trio",
                    None,
                );
                if let Ok(addr) = &r {
                    g.trios.push(addr.clone());
                }
                r.is_ok()
            }
            CAct::TrioRamp { kind } => {
                let target = g.trios.last().cloned().unwrap_or(h.trio.addr.clone());
                let c: white_whale_std::pool_network::trio::Config = w.query(&target, &white_whale_std::pool_network::trio::QueryMsg::Config {}).expect("trio config");
                let cur = crate::scn_trio::effective_amp(&c, w.height());
                let future_a: u64 = match kind.as_str() {
                    "x10" => cur * 10,
                    "x10+1" => cur * 10 + 1,
                    "max" => 1_000_000,
                    "max+1" => 1_000_001,
                    "x10cap" => (cur * 10).max(1_000_001),
                    "/10" => cur / 10,
                    "/2" => cur / 2,
                    "x2" => cur * 2,
                    "same" => cur,
                    "zero" => 0,
                    _ => 1,
                };
                // trios created by the factory are owned by it; directly instantiated ones by MALLORY
                let msg_direct = white_whale_std::pool_network::trio::ExecuteMsg::UpdateConfig {
                    owner: None,
                    fee_collector_addr: None,
                    pool_fees: None,
                    feature_toggle: None,
                    amp_factor: Some(white_whale_std::pool_network::trio::RampAmp { future_a, future_block: w.height() + 10_000 }),
                };
                let r1 = w.exec(
                    OWNER,
                    &h.fee.pool_factory,
                    &white_whale_std::pool_network::factory::ExecuteMsg::UpdateTrioConfig {
                        trio_addr: target.clone(),
                        owner: None,
                        fee_collector_addr: None,
                        pool_fees: None,
                        feature_toggle: None,
                        amp_factor: Some(white_whale_std::pool_network::trio::RampAmp { future_a, future_block: w.height() + 10_000 }),
                    },
                    &[],
                );
                let ok = r1.is_ok() || w.exec(MALLORY, &target, &msg_direct, &[]).is_ok();
                if ok {
                    cx.count("ramp:accepted");
                }
                ok
            }
            CAct::AdvanceBlocks { n } => {
                w.advance(n * 6_000_000_000, *n);
                true
            }
            CAct::VaultCreate { asset, t } => {
                let ai = vault_asset(h, *asset);
                let r = w.exec(OWNER, &h.fee.vault_factory, &white_whale_std::vault_network::vault_factory::ExecuteMsg::CreateVault { asset_info: ai.clone(), fees: ts[*t].vault(), token_factory_lp: false }, &[]);
                if r.is_ok() {
                    let addr: Option<String> = w.query(&h.fee.vault_factory, &white_whale_std::vault_network::vault_factory::QueryMsg::Vault { asset_info: ai }).unwrap();
                    if let Some(addr) = addr {
                        if !g.vaults.contains(&addr) {
                            g.vaults.push(addr);
                        }
                    }
                }
                r.is_ok()
            }
            CAct::VaultUpdate { t } => w
                .exec(
                    OWNER,
                    &h.fee.vault_factory,
                    &white_whale_std::vault_network::vault_factory::ExecuteMsg::UpdateVaultConfig {
                        vault_addr: h.vault.vault.clone(),
                        params: white_whale_std::vault_network::vault::UpdateConfigParams { flash_loan_enabled: None, deposit_enabled: None, withdraw_enabled: None, new_owner: None, new_vault_fees: Some(ts[*t].vault()), new_fee_collector_addr: None },
                    },
                    &[],
                )
                .is_ok(),
            CAct::VaultInstantiate { asset, t } => {
                let r = w.instantiate(
                    w.codes.vault,
                    MALLORY,
                    &white_whale_std::vault_network::vault::InstantiateMsg { owner: MALLORY.into(), asset_info: vault_asset(h, *asset), token_id: w.codes.token, vault_fees: ts[*t].vault(), fee_collector_addr: h.fee.collector.clone(), token_factory_lp: false },
                    &[],
                    "direct vault",
                    None,
                );
                if let Ok(addr) = &r {
                    g.vaults.push(addr.clone());
                }
                r.is_ok()
            }
            CAct::DistGrace { g: gi } => w
                .exec(
                    OWNER,
                    &h.fee.distributor,
                    &white_whale_std::fee_distributor::ExecuteMsg::UpdateConfig { owner: None, bonding_contract_addr: None, fee_collector_addr: None, grace_period: Some(Uint64::new(GRACES[*gi])), distribution_asset: None, epoch_config: None },
                    &[],
                )
                .is_ok(),
            CAct::DistDuration { d } => w
                .exec(
                    OWNER,
                    &h.fee.distributor,
                    &white_whale_std::fee_distributor::ExecuteMsg::UpdateConfig {
                        owner: None,
                        bonding_contract_addr: None,
                        fee_collector_addr: None,
                        grace_period: None,
                        distribution_asset: None,
                        epoch_config: Some(EpochConfig { duration: Uint64::new(DURATIONS[*d]), genesis_epoch: Uint64::new(h.genesis_ns) }),
                    },
                    &[],
                )
                .is_ok(),
            CAct::DistInstantiate { g: gi, d } => {
                let r = w.instantiate(
                    w.codes.fee_distributor,
                    MALLORY,
                    &white_whale_std::fee_distributor::InstantiateMsg {
                        bonding_contract_addr: h.fee.lair.clone(),
                        fee_collector_addr: h.fee.collector.clone(),
                        grace_period: Uint64::new(GRACES[*gi]),
                        epoch_config: EpochConfig { duration: Uint64::new(DURATIONS[*d]), genesis_epoch: Uint64::new(h.genesis_ns) },
                        distribution_asset: native("uwhale"),
                    },
                    &[],
                    "direct distributor",
                    None,
                );
                if let Ok(addr) = &r {
                    g.dists.push((addr.clone(), GRACES[*gi]));
                }
                r.is_ok()
            }
            CAct::LairInstantiate { growth, nassets } => {
                let all = [native("uwhale"), native("ubwhale"), native("uusdc")];
                let r = w.instantiate(
                    w.codes.whale_lair,
                    MALLORY,
                    &white_whale_std::whale_lair::InstantiateMsg { unbonding_period: Uint64::new(1_000_000), growth_rate: growths()[*growth], bonding_assets: all[..*nassets].to_vec() },
                    &[],
                    "direct lair",
                    None,
                );
                if let Ok(addr) = &r {
                    g.lairs.push(addr.clone());
                }
                r.is_ok()
            }
            CAct::LairGrowth { growth } => w.exec(OWNER, &h.fee.lair, &white_whale_std::whale_lair::ExecuteMsg::UpdateConfig { owner: None, unbonding_period: None, growth_rate: Some(growths()[*growth]), fee_distributor_addr: None }, &[]).is_ok(),
            CAct::TakeRate { r, switch } => w
                .exec(
                    OWNER,
                    &h.fee.collector,
                    &white_whale_std::fee_collector::ExecuteMsg::UpdateConfig { owner: None, pool_router: None, fee_distributor: None, pool_factory: None, vault_factory: None, take_rate: Some(take_rates()[*r]), take_rate_dao_address: None, is_take_rate_active: *switch },
                    &[],
                )
                .is_ok(),
        };
        if ok {
            cx.count("write:accepted");
        } else {
            cx.count("write:rejected");
            cx.check("rejected_update.changes_nothing", kv_equal(&before, &w.kv_clone()), || format!("{:?} was rejected but changed state", a));
        }
        for (i, gb) in grace_before.iter().enumerate() {
            let now = w.query::<_, white_whale_std::fee_distributor::Config>(&g.dists[i].0, &white_whale_std::fee_distributor::QueryMsg::Config {}).map(|c| c.grace_period.u64()).unwrap_or(0);
            cx.check("bounds.grace_period_never_decreases", now >= *gb, || format!("{:?}: grace period of {} went {} -> {}", a, g.dists[i].0, gb, now));
            if now > *gb {
                cx.count("grace:increased");
            }
            g.dists[i].1 = now;
        }
        let _ = Timestamp::from_nanos(0);
    }

    fn invariants(&self, w: &mut World, h: &FullHub, g: &CG, cx: &mut Cx) {
        let one = Decimal::one();
        let fees_ok = |p: Decimal, s: Decimal, bb: Decimal| -> bool { p < one && s < one && bb < one && p.checked_add(s).and_then(|x| x.checked_add(bb)).map(|t| t < one).unwrap_or(false) };
        for addr in &g.pairs {
            let c: white_whale_std::pool_network::pair::Config = w.query(addr, &white_whale_std::pool_network::pair::QueryMsg::Config {}).expect("pair config");
            let f = &c.pool_fees;
            cx.check("bounds.pool_fees_each_and_total_below_one", fees_ok(f.protocol_fee.share, f.swap_fee.share, f.burn_fee.share), || format!("pair {}: fees {:?}", addr, f));
        }
        for addr in &g.trios {
            let c: white_whale_std::pool_network::trio::Config = w.query(addr, &white_whale_std::pool_network::trio::QueryMsg::Config {}).expect("trio config");
            let f = &c.pool_fees;
            cx.check("bounds.pool_fees_each_and_total_below_one", fees_ok(f.protocol_fee.share, f.swap_fee.share, f.burn_fee.share), || format!("trio {}: fees {:?}", addr, f));
            cx.check("bounds.amp_within_1_and_1e6", (1..=1_000_000).contains(&c.initial_amp) && (1..=1_000_000).contains(&c.future_amp), || format!("trio {}: amp {} -> {}", addr, c.initial_amp, c.future_amp));
        }
        for addr in &g.vaults {
            let c: white_whale_std::vault_network::vault::Config = w.query(addr, &white_whale_std::vault_network::vault::QueryMsg::Config {}).expect("vault config");
            let f = &c.fees;
            cx.check("bounds.vault_fees_each_and_total_below_one", fees_ok(f.protocol_fee.share, f.flash_loan_fee.share, f.burn_fee.share), || format!("vault {}: fees {:?}", addr, f));
            if let AssetInfo::NativeToken { denom } = &c.asset_info {
                if is_factory_token(denom) {
                    cx.count("vault:over_token_factory_asset_reached");
                    cx.check("bounds.no_burn_fee_on_token_factory_asset", f.burn_fee.share.is_zero(), || format!("vault {} over {} has burn fee {}", addr, denom, f.burn_fee.share));
                }
            }
        }
        for (addr, last) in &g.dists {
            let c: white_whale_std::fee_distributor::Config = w.query(addr, &white_whale_std::fee_distributor::QueryMsg::Config {}).expect("distributor config");
            cx.check("bounds.grace_period_within_1_and_30", (1..=30).contains(&c.grace_period.u64()), || format!("distributor {}: grace {}", addr, c.grace_period));
            cx.check("bounds.epoch_duration_at_least_one_day", c.epoch_config.duration.u64() >= DAY_NS, || format!("distributor {}: duration {}", addr, c.epoch_config.duration));
            let _ = last;
        }
        for addr in &g.lairs {
            let c: white_whale_std::whale_lair::Config = w.query(addr, &white_whale_std::whale_lair::QueryMsg::Config {}).expect("lair config");
            cx.check("bounds.growth_rate_at_most_one", c.growth_rate <= one, || format!("lair {}: growth rate {}", addr, c.growth_rate));
            cx.check("bounds.at_most_two_native_bonding_assets", c.bonding_assets.len() <= 2 && c.bonding_assets.iter().all(|a| a.is_native_token()), || format!("lair {}: bonding assets {:?}", addr, c.bonding_assets));
        }
        let c: white_whale_std::fee_collector::Config = w.query(&h.fee.collector, &white_whale_std::fee_collector::QueryMsg::Config {}).expect("collector config");
        cx.check("bounds.take_rate_below_one", c.take_rate < one, || format!("take rate {}", c.take_rate));
    }
}
