//! The chain simulator wrapper: real contracts inside cw-multi-test over a snapshot-able
//! storage. Everything mutable in `cw_multi_test::App` (bank, wasm registry, contract
//! storage) lives in its `Storage`; only the code registry (boxed closures) and the block
//! info live outside. `SnapStore` is a handle to a shared ordered map that can be cloned
//! (snapshot) and replaced (restore).

use std::cell::RefCell;
use std::collections::BTreeMap;
use std::hash::{Hash, Hasher};
use std::panic::{catch_unwind, AssertUnwindSafe};
use std::rc::Rc;
use std::sync::Arc;

use cosmwasm_std::testing::MockApi;
use cosmwasm_std::{
    to_json_binary, Addr, Binary, BlockInfo, Coin, CosmosMsg, Empty, Order, Record, Storage,
    Timestamp, Uint128, WasmMsg,
};
use cw_multi_test::{App, AppBuilder, AppResponse, BankKeeper, Contract, ContractWrapper, Executor};
use serde::de::DeserializeOwned;
use serde::Serialize;

pub type KV = BTreeMap<Vec<u8>, Vec<u8>>;

#[derive(Clone, Default)]
pub struct SnapStore(pub Rc<RefCell<KV>>);

impl Storage for SnapStore {
    fn get(&self, key: &[u8]) -> Option<Vec<u8>> {
        self.0.borrow().get(key).cloned()
    }
    fn set(&mut self, key: &[u8], value: &[u8]) {
        if value.is_empty() {
            panic!("empty value");
        }
        self.0.borrow_mut().insert(key.to_vec(), value.to_vec());
    }
    fn remove(&mut self, key: &[u8]) {
        self.0.borrow_mut().remove(key);
    }
    fn range<'a>(
        &'a self,
        start: Option<&[u8]>,
        end: Option<&[u8]>,
        order: Order,
    ) -> Box<dyn Iterator<Item = Record> + 'a> {
        use std::ops::Bound;
        let lo = start.map_or(Bound::Unbounded, |s| Bound::Included(s.to_vec()));
        let hi = end.map_or(Bound::Unbounded, |e| Bound::Excluded(e.to_vec()));
        if let (Some(s), Some(e)) = (start, end) {
            if s > e {
                return Box::new(std::iter::empty());
            }
        }
        let m = self.0.borrow();
        let v: Vec<Record> = m
            .range((lo, hi))
            .map(|(k, v)| (k.clone(), v.clone()))
            .collect();
        match order {
            Order::Ascending => Box::new(v.into_iter()),
            Order::Descending => Box::new(v.into_iter().rev()),
        }
    }
}

pub type WApp = App<BankKeeper, MockApi, SnapStore>;

/// A complete chain state: all storage + block.
#[derive(Clone, Debug, PartialEq, Eq)]
pub struct Snapshot {
    pub kv: Arc<KV>,
    pub height: u64,
    pub time_ns: u64,
}

impl Hash for Snapshot {
    fn hash<H: Hasher>(&self, h: &mut H) {
        self.height.hash(h);
        self.time_ns.hash(h);
        self.kv.len().hash(h);
        for (k, v) in self.kv.iter() {
            k.hash(h);
            canon_value(k, v, |c| c.hash(h));
        }
    }
}

/// Canonicalise values whose serialisation is not deterministic. The only such value in
/// the code base is `incentive::Flow` (contains `HashMap<u64,Uint128>` fields, serialised
/// in RandomState order). They are stored under the contract-storage map `flows`; every
/// reader accesses the maps by key, so re-serialising with sorted keys is sound.
fn canon_value<F: FnOnce(&[u8])>(k: &[u8], v: &[u8], f: F) {
    const NS: &[u8] = b"\x00\x05flows";
    if v.first() == Some(&b'{') && k.windows(NS.len()).any(|w| w == NS) && v.windows(14).any(|w| w == b"emitted_tokens") {
        if let Ok(val) = serde_json::from_slice::<serde_json::Value>(v) {
            // serde_json::Value objects are BTreeMaps (no preserve_order feature) → sorted.
            let s = serde_json::to_vec(&val).unwrap();
            return f(&s);
        }
    }
    f(v)
}

/// Canonical (sorted-json) form of a full KV map, used for equality in "nothing changed" oracles.
pub fn kv_equal(a: &KV, b: &KV) -> bool {
    if a.len() != b.len() {
        return false;
    }
    for ((ka, va), (kb, vb)) in a.iter().zip(b.iter()) {
        if ka != kb {
            return false;
        }
        if va != vb {
            let mut ca = vec![];
            let mut cb = vec![];
            canon_value(ka, va, |c| ca = c.to_vec());
            canon_value(kb, vb, |c| cb = c.to_vec());
            if ca != cb {
                return false;
            }
        }
    }
    true
}

/// Human readable diff of two maps (keys only), for replay output.
pub fn kv_diff(a: &KV, b: &KV) -> Vec<String> {
    let mut out = vec![];
    for (k, v) in a.iter() {
        match b.get(k) {
            None => out.push(format!("- {}", String::from_utf8_lossy(k))),
            Some(v2) if v2 != v => out.push(format!(
                "~ {} : {} -> {}",
                String::from_utf8_lossy(k),
                String::from_utf8_lossy(v),
                String::from_utf8_lossy(v2)
            )),
            _ => {}
        }
    }
    for (k, v) in b.iter() {
        if !a.contains_key(k) {
            out.push(format!(
                "+ {} = {}",
                String::from_utf8_lossy(k),
                String::from_utf8_lossy(v)
            ));
        }
    }
    out
}

pub fn fingerprint<T: Hash>(t: &T) -> u128 {
    // two independent SipHash passes with different prefixes → 128 bits
    let mut h1 = std::collections::hash_map::DefaultHasher::new();
    0x9e3779b97f4a7c15u64.hash(&mut h1);
    t.hash(&mut h1);
    let mut h2 = std::collections::hash_map::DefaultHasher::new();
    0xc2b2ae3d27d4eb4fu64.hash(&mut h2);
    t.hash(&mut h2);
    0x165667b19e3779f9u64.hash(&mut h2);
    ((h1.finish() as u128) << 64) | (h2.finish() as u128)
}

/// Code ids of every contract, stored in a fixed order so that ids agree between threads.
#[derive(Clone, Debug)]
pub struct Codes {
    pub token: u64,
    pub pair: u64,
    pub trio: u64,
    pub factory: u64,
    pub router: u64,
    pub vault: u64,
    pub vault_factory: u64,
    pub vault_router: u64,
    pub fee_collector: u64,
    pub fee_distributor: u64,
    pub fee_distributor_mock: u64,
    pub whale_lair: u64,
    pub incentive: u64,
    pub incentive_factory: u64,
    pub frontend_helper: u64,
    pub epoch_manager: u64,
    pub adversary: u64,
    pub hook_receiver: u64,
}

pub const GENESIS_TIME_NS: u64 = 1_700_000_000_000_000_000;
pub const GENESIS_HEIGHT: u64 = 1000;

#[derive(Debug, Clone)]
pub enum TxErr {
    Err(String),
    Panic(String),
}
impl TxErr {
    pub fn msg(&self) -> &str {
        match self {
            TxErr::Err(s) | TxErr::Panic(s) => s,
        }
    }
    pub fn is_panic(&self) -> bool {
        matches!(self, TxErr::Panic(_))
    }
}
pub type TxResult = Result<AppResponse, TxErr>;

pub struct World {
    pub app: WApp,
    pub store: SnapStore,
    pub codes: Codes,
    /// counters
    pub n_exec: u64,
    pub n_ok: u64,
    pub n_err: u64,
    pub n_panic: u64,
}

thread_local! {
    pub static LAST_PANIC: RefCell<String> = RefCell::new(String::new());
}

pub fn install_quiet_panic_hook() {
    let verbose = std::env::var("WWMC_PANIC_VERBOSE").is_ok();
    std::panic::set_hook(Box::new(move |info| {
        let msg = if let Some(s) = info.payload().downcast_ref::<&str>() {
            s.to_string()
        } else if let Some(s) = info.payload().downcast_ref::<String>() {
            s.clone()
        } else {
            "<non-string panic>".to_string()
        };
        let loc = info
            .location()
            .map(|l| format!("{}:{}", l.file(), l.line()))
            .unwrap_or_default();
        let full = format!("{msg} @ {loc}");
        if verbose || loc.contains("/verif/mc/src") || loc.starts_with("src/") {
            eprintln!("[panic] {full}");
        }
        LAST_PANIC.with(|p| *p.borrow_mut() = full);
    }));
}

fn boxed<C: Contract<Empty> + 'static>(c: C) -> Box<dyn Contract<Empty>> {
    Box::new(c)
}

impl World {
    pub fn new() -> World {
        let store = SnapStore::default();
        let mut app: WApp = AppBuilder::new()
            .with_storage(store.clone())
            .with_block(BlockInfo {
                height: GENESIS_HEIGHT,
                time: Timestamp::from_nanos(GENESIS_TIME_NS),
                chain_id: "wwmc-1".to_string(),
            })
            .build(|_, _, _| {});
        let codes = Codes {
            token: app.store_code(boxed(ContractWrapper::new_with_empty(
                terraswap_token::contract::execute,
                terraswap_token::contract::instantiate,
                terraswap_token::contract::query,
            ))),
            pair: app.store_code(boxed(
                ContractWrapper::new_with_empty(
                    terraswap_pair::contract::execute,
                    terraswap_pair::contract::instantiate,
                    terraswap_pair::contract::query,
                )
                .with_reply(terraswap_pair::contract::reply)
                .with_migrate(terraswap_pair::contract::migrate),
            )),
            trio: app.store_code(boxed(
                ContractWrapper::new_with_empty(
                    stableswap_3pool::contract::execute,
                    stableswap_3pool::contract::instantiate,
                    stableswap_3pool::contract::query,
                )
                .with_reply(stableswap_3pool::contract::reply)
                .with_migrate(stableswap_3pool::contract::migrate),
            )),
            factory: app.store_code(boxed(
                ContractWrapper::new_with_empty(
                    terraswap_factory::contract::execute,
                    terraswap_factory::contract::instantiate,
                    terraswap_factory::contract::query,
                )
                .with_reply(terraswap_factory::contract::reply)
                .with_migrate(terraswap_factory::contract::migrate),
            )),
            router: app.store_code(boxed(
                ContractWrapper::new_with_empty(
                    terraswap_router::contract::execute,
                    terraswap_router::contract::instantiate,
                    terraswap_router::contract::query,
                )
                .with_migrate(terraswap_router::contract::migrate),
            )),
            vault: app.store_code(boxed(
                ContractWrapper::new_with_empty(
                    vault::contract::execute,
                    vault::contract::instantiate,
                    vault::contract::query,
                )
                .with_reply(vault::reply::reply)
                .with_migrate(vault::contract::migrate),
            )),
            vault_factory: app.store_code(boxed(
                ContractWrapper::new_with_empty(
                    vault_factory::contract::execute,
                    vault_factory::contract::instantiate,
                    vault_factory::contract::query,
                )
                .with_reply(vault_factory::reply::reply)
                .with_migrate(vault_factory::contract::migrate),
            )),
            vault_router: app.store_code(boxed(
                ContractWrapper::new_with_empty(
                    vault_router::contract::execute,
                    vault_router::contract::instantiate,
                    vault_router::contract::query,
                )
                .with_migrate(vault_router::contract::migrate),
            )),
            fee_collector: app.store_code(boxed(
                ContractWrapper::new_with_empty(
                    fee_collector::contract::execute,
                    fee_collector::contract::instantiate,
                    fee_collector::contract::query,
                )
                .with_reply(fee_collector::contract::reply)
                .with_migrate(fee_collector::contract::migrate),
            )),
            fee_distributor: app.store_code(boxed(
                ContractWrapper::new_with_empty(
                    fee_distributor::contract::execute,
                    fee_distributor::contract::instantiate,
                    fee_distributor::contract::query,
                )
                .with_reply(fee_distributor::contract::reply)
                .with_migrate(fee_distributor::contract::migrate),
            )),
            fee_distributor_mock: app.store_code(boxed(ContractWrapper::new_with_empty(
                fee_distributor_mock::contract::execute,
                fee_distributor_mock::contract::instantiate,
                fee_distributor_mock::contract::query,
            ))),
            whale_lair: app.store_code(boxed(
                ContractWrapper::new_with_empty(
                    whale_lair::contract::execute,
                    whale_lair::contract::instantiate,
                    whale_lair::contract::query,
                )
                .with_migrate(whale_lair::contract::migrate),
            )),
            incentive: app.store_code(boxed(
                ContractWrapper::new_with_empty(
                    incentive::contract::execute,
                    incentive::contract::instantiate,
                    incentive::contract::query,
                )
                .with_migrate(incentive::contract::migrate),
            )),
            incentive_factory: app.store_code(boxed(
                ContractWrapper::new_with_empty(
                    incentive_factory::contract::execute,
                    incentive_factory::contract::instantiate,
                    incentive_factory::contract::query,
                )
                .with_reply(incentive_factory::contract::reply)
                .with_migrate(incentive_factory::contract::migrate),
            )),
            frontend_helper: app.store_code(boxed(
                ContractWrapper::new_with_empty(
                    frontend_helper::contract::execute,
                    frontend_helper::contract::instantiate,
                    frontend_helper::contract::query,
                )
                .with_reply(frontend_helper::contract::reply)
                .with_migrate(frontend_helper::contract::migrate),
            )),
            epoch_manager: app.store_code(boxed(
                ContractWrapper::new_with_empty(
                    epoch_manager::contract::execute,
                    epoch_manager::contract::instantiate,
                    epoch_manager::contract::query,
                )
                .with_migrate(epoch_manager::contract::migrate),
            )),
            adversary: app.store_code(boxed(ContractWrapper::new_with_empty(
                crate::helpers::adversary_execute,
                crate::helpers::adversary_instantiate,
                crate::helpers::adversary_query,
            ))),
            hook_receiver: app.store_code(boxed(ContractWrapper::new_with_empty(
                crate::helpers::hookrx_execute,
                crate::helpers::hookrx_instantiate,
                crate::helpers::hookrx_query,
            ))),
        };
        World {
            app,
            store,
            codes,
            n_exec: 0,
            n_ok: 0,
            n_err: 0,
            n_panic: 0,
        }
    }

    // ---------------------------------------------------------------- snapshots
    pub fn snapshot(&self) -> Snapshot {
        let b = self.app.block_info();
        Snapshot {
            kv: Arc::new(self.store.0.borrow().clone()),
            height: b.height,
            time_ns: b.time.nanos(),
        }
    }
    pub fn restore(&mut self, s: &Snapshot) {
        *self.store.0.borrow_mut() = (*s.kv).clone();
        self.app.set_block(BlockInfo {
            height: s.height,
            time: Timestamp::from_nanos(s.time_ns),
            chain_id: "wwmc-1".to_string(),
        });
    }
    pub fn kv_clone(&self) -> KV {
        self.store.0.borrow().clone()
    }
    pub fn kv_restore(&mut self, kv: &KV) {
        *self.store.0.borrow_mut() = kv.clone();
    }

    // ---------------------------------------------------------------- time
    pub fn time_ns(&self) -> u64 {
        self.app.block_info().time.nanos()
    }
    pub fn height(&self) -> u64 {
        self.app.block_info().height
    }
    pub fn advance(&mut self, d_ns: u64, d_height: u64) {
        self.app.update_block(|b| {
            b.time = b.time.plus_nanos(d_ns);
            b.height += d_height;
        });
    }
    pub fn set_time_ns(&mut self, t: u64) {
        self.app.update_block(|b| {
            b.time = Timestamp::from_nanos(t);
        });
    }

    // ---------------------------------------------------------------- bank
    pub fn mint_native(&mut self, to: &str, amount: u128, denom: &str) {
        self.app
            .sudo(cw_multi_test::SudoMsg::Bank(cw_multi_test::BankSudo::Mint {
                to_address: to.to_string(),
                amount: vec![Coin::new(amount, denom)],
            }))
            .expect("bank mint");
    }

    pub fn native_balance(&self, addr: &str, denom: &str) -> u128 {
        self.app
            .wrap()
            .query_balance(addr, denom)
            .map(|c| c.amount.u128())
            .unwrap_or(0)
    }

    /// Circulating supply of a native denom = sum over every bank balance entry in storage.
    pub fn native_supply(&self, denom: &str) -> u128 {
        let m = self.store.0.borrow();
        let mut total = 0u128;
        for (k, v) in m.iter() {
            if k.starts_with(b"\x00\x04bank") {
                if let Ok(coins) = serde_json::from_slice::<Vec<Coin>>(v) {
                    for c in coins {
                        if c.denom == denom {
                            total += c.amount.u128();
                        }
                    }
                }
            }
        }
        total
    }

    pub fn cw20_balance(&self, token: &str, addr: &str) -> u128 {
        let r: Result<cw20::BalanceResponse, _> = self.app.wrap().query_wasm_smart(
            token,
            &cw20::Cw20QueryMsg::Balance {
                address: addr.to_string(),
            },
        );
        r.map(|b| b.balance.u128()).unwrap_or(0)
    }
    pub fn cw20_supply(&self, token: &str) -> u128 {
        let r: Result<cw20::TokenInfoResponse, _> = self
            .app
            .wrap()
            .query_wasm_smart(token, &cw20::Cw20QueryMsg::TokenInfo {});
        r.map(|b| b.total_supply.u128()).unwrap_or(0)
    }

    // ---------------------------------------------------------------- wasm
    pub fn instantiate<T: Serialize>(
        &mut self,
        code: u64,
        sender: &str,
        msg: &T,
        funds: &[Coin],
        label: &str,
        admin: Option<&str>,
    ) -> Result<String, TxErr> {
        let r = catch_unwind(AssertUnwindSafe(|| {
            self.app.instantiate_contract(
                code,
                Addr::unchecked(sender),
                msg,
                funds,
                label,
                admin.map(|s| s.to_string()),
            )
        }));
        match r {
            Ok(Ok(a)) => Ok(a.to_string()),
            Ok(Err(e)) => Err(TxErr::Err(format!("{:#}", e))),
            Err(_) => Err(TxErr::Panic(LAST_PANIC.with(|p| p.borrow().clone()))),
        }
    }

    /// Execute one top-level transaction. Panics inside contract code are caught and
    /// reported as a reverted transaction (state restored from the pre-image).
    pub fn exec<T: Serialize + std::fmt::Debug>(
        &mut self,
        sender: &str,
        contract: &str,
        msg: &T,
        funds: &[Coin],
    ) -> TxResult {
        let bin = to_json_binary(msg).unwrap();
        self.exec_raw(sender, contract, bin, funds)
    }

    pub fn exec_raw(&mut self, sender: &str, contract: &str, msg: Binary, funds: &[Coin]) -> TxResult {
        let cm: CosmosMsg = WasmMsg::Execute {
            contract_addr: contract.to_string(),
            msg,
            funds: funds.to_vec(),
        }
        .into();
        self.exec_cosmos(sender, cm)
    }

    pub fn exec_cosmos(&mut self, sender: &str, msg: CosmosMsg) -> TxResult {
        self.n_exec += 1;
        let pre = self.kv_clone();
        let r = catch_unwind(AssertUnwindSafe(|| {
            self.app.execute(Addr::unchecked(sender), msg)
        }));
        match r {
            Ok(Ok(resp)) => {
                self.n_ok += 1;
                Ok(resp)
            }
            Ok(Err(e)) => {
                self.n_err += 1;
                // cw-multi-test guarantees atomicity; verify it (machinery self-check)
                let same = kv_equal(&pre, &self.store.0.borrow());
                if !same {
                    self.kv_restore(&pre);
                    return Err(TxErr::Err(format!("NON-ATOMIC-FAILURE {:#}", e)));
                }
                Err(TxErr::Err(format!("{:#}", e)))
            }
            Err(_) => {
                self.n_panic += 1;
                self.kv_restore(&pre);
                Err(TxErr::Panic(LAST_PANIC.with(|p| p.borrow().clone())))
            }
        }
    }

    pub fn migrate<T: Serialize>(&mut self, sender: &str, contract: &str, msg: &T, code: u64) -> TxResult {
        let pre = self.kv_clone();
        let r = catch_unwind(AssertUnwindSafe(|| {
            self.app
                .migrate_contract(Addr::unchecked(sender), Addr::unchecked(contract), msg, code)
        }));
        match r {
            Ok(Ok(resp)) => Ok(resp),
            Ok(Err(e)) => Err(TxErr::Err(format!("{:#}", e))),
            Err(_) => {
                self.kv_restore(&pre);
                Err(TxErr::Panic(LAST_PANIC.with(|p| p.borrow().clone())))
            }
        }
    }

    pub fn query<T: Serialize, R: DeserializeOwned>(&self, contract: &str, msg: &T) -> Result<R, String> {
        let r = catch_unwind(AssertUnwindSafe(|| {
            self.app.wrap().query_wasm_smart::<R>(contract, msg)
        }));
        match r {
            Ok(Ok(v)) => Ok(v),
            Ok(Err(e)) => Err(format!("{}", e)),
            Err(_) => Err(format!(
                "PANIC {}",
                LAST_PANIC.with(|p| p.borrow().clone())
            )),
        }
    }

    /// Raw read of a contract storage key.
    pub fn raw(&self, contract: &str, key: &[u8]) -> Option<Vec<u8>> {
        self.app
            .wrap()
            .query_wasm_raw(contract, key.to_vec())
            .ok()
            .flatten()
    }

    /// Raw write of a contract storage key (used only to lay out the state of an OLDER contract version before a
    /// migration is exercised). The key layout of cw-multi-test (namespaces "wasm" / "contract_data/<addr>", each
    /// with a 2-byte length prefix) is checked against an existing key of that contract.
    pub fn raw_set(&mut self, contract: &str, key: &[u8], value: &[u8]) {
        let ns = format!("contract_data/{}", contract);
        let mut full: Vec<u8> = vec![0, 4];
        full.extend_from_slice(b"wasm");
        full.extend_from_slice(&(ns.len() as u16).to_be_bytes());
        full.extend_from_slice(ns.as_bytes());
        let known = self.dump(contract);
        let (k0, v0) = known.first().expect("contract has storage");
        let mut probe = full.clone();
        probe.extend_from_slice(k0);
        assert_eq!(self.store.0.borrow().get(&probe), Some(v0), "unexpected storage key layout");
        full.extend_from_slice(key);
        self.store.0.borrow_mut().insert(full, value.to_vec());
    }

    pub fn dump(&self, contract: &str) -> Vec<Record> {
        self.app.dump_wasm_raw(&Addr::unchecked(contract))
    }

    // ---------------------------------------------------------------- cw20 helpers
    pub fn new_cw20(&mut self, symbol: &str, decimals: u8, balances: &[(&str, u128)], minter: &str) -> String {
        let msg = white_whale_std::pool_network::token::InstantiateMsg {
            name: format!("{symbol} token"),
            symbol: symbol.to_string(),
            decimals,
            initial_balances: balances
                .iter()
                .map(|(a, b)| cw20::Cw20Coin {
                    address: a.to_string(),
                    amount: Uint128::new(*b),
                })
                .collect(),
            mint: Some(cw20::MinterResponse {
                minter: minter.to_string(),
                cap: None,
            }),
        };
        self.instantiate(self.codes.token, minter, &msg, &[], symbol, None)
            .unwrap_or_else(|e| panic!("cw20 instantiate failed: {:?}", e))
    }

    pub fn cw20_allow(&mut self, token: &str, owner: &str, spender: &str, amount: u128) {
        self.exec(
            owner,
            token,
            &cw20::Cw20ExecuteMsg::IncreaseAllowance {
                spender: spender.to_string(),
                amount: Uint128::new(amount),
                expires: None,
            },
            &[],
        )
        .unwrap_or_else(|e| panic!("allowance failed: {:?}", e));
    }
}


/// Extract the value of the first attribute named `key` in any wasm event of the given
/// contract (or any contract when `contract` is None) whose `action` equals `action`.
pub fn attr_of(resp: &AppResponse, contract: Option<&str>, action: &str, key: &str) -> Option<String> {
    for ev in resp.events.iter().filter(|e| e.ty == "wasm") {
        if let Some(c) = contract {
            if !ev.attributes.iter().any(|a| a.key == "_contract_addr" && a.value == c) {
                continue;
            }
        }
        if !ev.attributes.iter().any(|a| a.key == "action" && a.value == action) {
            continue;
        }
        for a in &ev.attributes {
            if a.key == key {
                return Some(a.value.clone());
            }
        }
    }
    None
}

pub fn attr_u128(resp: &AppResponse, contract: Option<&str>, action: &str, key: &str) -> Option<u128> {
    attr_of(resp, contract, action, key).and_then(|s| s.parse::<u128>().ok())
}

pub fn coin(amount: u128, denom: &str) -> Coin {
    Coin::new(amount, denom)
}
