//! C09 — fee distributor: epoch ledgers balance and no epoch is paid twice.
use cosmwasm_std::Decimal;
use serde_json::Value;

use crate::deploy::{ALICE, BOB, CAROL};
use crate::engine::{default_cfg, explore, replay_trace, Evidence};
use crate::scn_dist::{DAct, DRoot, DistScn};

pub fn scenario(tier: &str) -> DistScn {
    let mut roots = vec![
        DRoot { label: "grace1/growth0/fresh".into(), grace: 1, growth_rate: Decimal::zero(), pre_epochs: 0, then: vec![] },
        DRoot { label: "grace2/growth1e-9/2epochs".into(), grace: 2, growth_rate: Decimal::from_ratio(1u128, 1_000_000_000u128), pre_epochs: 2, then: vec![] },
    ];
    // rounding drift: the global weight is floored at every bonding event, an untouched bond only once, so
    // after bob's bond the addresses' weights (1001 + 500) exceed the epoch's global weight (1500) by one unit
    roots.push(DRoot {
        label: "grace2/growth7e-9/weights-sum-above-global".into(),
        grace: 2,
        growth_rate: Decimal::from_ratio(7u128, 1_000_000_000u128),
        pre_epochs: 1,
        then: vec![DAct::Bond { user: BOB.into(), amount: 500 }, DAct::Inflow { amount: 1_000_000 }, DAct::Epoch],
    });
    // fees on the scale of an 18-decimals distribution asset: one epoch's inflow exceeds 2^64 base units
    roots.push(DRoot { label: "grace2/growth0/1epoch+inflow-above-2^64".into(), grace: 2, growth_rate: Decimal::zero(), pre_epochs: 1, then: vec![DAct::BigInflow] });
    // an epoch clock that does not start on a whole second: every block of this root lies 300 ms before an epoch boundary
    roots.push(DRoot {
        label: "grace2/growth0/genesis+0.3s/2epochs".into(),
        grace: 2,
        growth_rate: Decimal::zero(),
        pre_epochs: 0,
        then: vec![DAct::Epoch, DAct::Bond { user: ALICE.into(), amount: 1000 }, DAct::Inflow { amount: 1_000_000 }, DAct::Epoch, DAct::Inflow { amount: 1_000_000 }],
    });
    if tier != "quick" {
        roots.push(DRoot { label: "grace3/growth0/3epochs".into(), grace: 3, growth_rate: Decimal::zero(), pre_epochs: 3, then: vec![] });
        roots.push(DRoot { label: "grace1/growth1/1epoch".into(), grace: 1, growth_rate: Decimal::one(), pre_epochs: 1, then: vec![] });
        roots.push(DRoot { label: "grace5/growth0/2epochs".into(), grace: 5, growth_rate: Decimal::zero(), pre_epochs: 2, then: vec![] });
    }
    let users: Vec<String> = if tier == "quick" { vec![ALICE.into(), BOB.into()] } else { vec![ALICE.into(), BOB.into(), CAROL.into()] };
    DistScn { roots, users }
}

pub fn run(tier: &str, seed: u64) -> i32 {
    let mut ev = Evidence::new("C09", tier, seed);
    ev.assumptions = vec![
        "fee inflow is a bank send of the distribution asset to the fee collector (pool/vault factories are empty; the pipeline from pools is C10)".into(),
        "the expected payout is recomputed from the bonding contract's Weight query per claimable epoch: sum floor(total_e * share_e)".into(),
    ];
    let depth = if tier == "quick" { 6 } else { 8 };
    let cfg = default_cfg("C09", tier, seed, depth);
    ev.add_report(explore(&scenario(tier), &cfg));
    if tier == "quick" && ev.violations.is_empty() {
        // the quick tier's main exploration has two bonders; a shallower one with three (the property speaks of >= 3
        // bonders) over the first three roots, so that every change is also exercised with a third party's claims and bonds
        let mut three = scenario(tier);
        three.users = vec![ALICE.into(), BOB.into(), CAROL.into()];
        three.roots.truncate(3);
        let cfg3 = default_cfg("C09", tier, seed, 4);
        ev.add_report(explore(&three, &cfg3));
    }
    if ev.violations.is_empty() {
        for c in ["newepoch:ok", "newepoch:rejected", "rollover:nonzero", "claim:paid>0", "claim:rejected", "bond:ok", "unbond:ok", "grace:increased"] {
            ev.require_counter(c, 1);
        }
    }
    ev.finish()
}

pub fn replay(doc: &Value) -> bool {
    let tier = doc["tier"].as_str().unwrap_or("quick");
    replay_trace(&scenario(tier), doc)
}
