//! C14 — quotes are honest: simulation equals execution (pair CP + stableswap, 3pool, router, vault share).
use serde_json::Value;

use crate::deploy::{Fee3, ONE18};
use crate::engine::{default_cfg, explore, replay_trace, Evidence, Scenario};
use crate::scn_pair::{Kinds, PairRoot, PairScn, Probe};
use crate::scn_router::RouterScn;
use crate::scn_trio::{TrioRoot, TrioScn};
use crate::scn_vault::{VaultRoot, VaultScn};

const TYPICAL: Fee3 = Fee3::new(ONE18 / 1000, 2 * ONE18 / 1000, ONE18 / 1000);
const HEAVY: Fee3 = Fee3::new(3 * ONE18 / 10, 3 * ONE18 / 10, 3 * ONE18 / 10);

pub fn pair_scn(tier: &str, stable: Option<u64>) -> PairScn {
    let mut roots = vec![];
    let kinds: Vec<Kinds> = if tier == "quick" { vec![Kinds::NC] } else { vec![Kinds::NN, Kinds::NC, Kinds::CC] };
    for k in kinds {
        for (fi, f) in [TYPICAL, HEAVY, Fee3::new(0, 0, 0)].iter().enumerate() {
            if tier == "quick" && fi == 2 {
                continue;
            }
            let dec = if stable.is_some() && fi == 1 { [6, 18] } else { [6, 6] };
            let one = |d: u8| 10u128.pow(d as u32);
            roots.push(PairRoot { label: format!("{:?}/fees{}/dec{:?}", k, fi, dec), kinds: k, decimals: dec, fees: *f, first: [1000 * one(dec[0]), 3000 * one(dec[1])], pre_swaps: fi == 0 });
        }
    }
    PairScn { property: "C14".into(), stable_amp: stable, roots, fee_alphabet: vec![HEAVY], probe: Probe::SimEqExec, reduced: true }
}

pub fn trio_scn(tier: &str) -> TrioScn {
    let e9 = 10u128.pow(9);
    let mut roots = vec![TrioRoot { label: "native/amp100/typical".into(), with_cw20: false, amp: 100, fees: TYPICAL, first: [e9, e9, e9], pre_swaps: true, mid_ramp_to: None }];
    roots.push(TrioRoot { label: "cw20/amp10/heavy".into(), with_cw20: true, amp: 10, fees: HEAVY, first: [e9, 2 * e9, e9 / 2], pre_swaps: false, mid_ramp_to: None });
    roots.push(TrioRoot { label: "native/amp100->1000 mid-ramp/typical".into(), with_cw20: false, amp: 100, fees: TYPICAL, first: [e9, 3 * e9, e9 / 2], pre_swaps: false, mid_ramp_to: Some(1000) });
    if tier != "quick" {
        roots.push(TrioRoot { label: "native/amp1e6/zero".into(), with_cw20: false, amp: 1_000_000, fees: Fee3::new(0, 0, 0), first: [e9, e9, e9], pre_swaps: true, mid_ramp_to: None });
    }
    TrioScn { property: "C14".into(), roots, fee_alphabet: vec![HEAVY], probe: Probe::SimEqExec, with_ramps: false }
}

pub fn vault_scn(tier: &str) -> VaultScn {
    let mut roots = vec![];
    for cw20 in [false, true] {
        for (fi, f) in [TYPICAL, Fee3::new(ONE18 / 10, ONE18 / 10, ONE18 / 10)].iter().enumerate() {
            if tier == "quick" && cw20 && fi == 1 {
                continue;
            }
            roots.push(VaultRoot { label: format!("cw20={}/fees{}", cw20, fi), cw20, fees: *f, first: 1_000_000, pre_loan: true });
        }
    }
    VaultScn { property: "C14".into(), roots, fee_alphabet: vec![], probe_share: true }
}

pub fn run(tier: &str, seed: u64) -> i32 {
    let mut ev = Evidence::new("C14", tier, seed);
    ev.assumptions = vec![
        "probes run in every state reached by the explorers (depth 2 quick / 3 thorough), i.e. after arbitrary short histories incl. pending protocol fees".into(),
        "router: the router holds none of the route's assets beforehand (each hop swaps the router's whole balance)".into(),
        "offers {1, 999, 1e6, 10% reserve, reserve}; router offers {1e3, 1e6, 5e7}".into(),
    ];
    let depth = if tier == "quick" { 2 } else { 3 };
    let cfg = default_cfg("C14", tier, seed, depth);
    ev.add_report(explore(&pair_scn(tier, None), &cfg));
    if ev.violations.is_empty() {
        ev.add_report(explore(&pair_scn(tier, Some(100)), &cfg));
    }
    if ev.violations.is_empty() {
        ev.add_report(explore(&trio_scn(tier), &cfg));
    }
    if ev.violations.is_empty() {
        ev.add_report(explore(&RouterScn { property: "C14".into(), fees: TYPICAL }, &cfg));
    }
    if ev.violations.is_empty() {
        ev.add_report(explore(&vault_scn(tier), &cfg));
    }
    if ev.violations.is_empty() {
        for c in ["probe:sim_vs_exec:both_ok", "probe:route_ok:1hops", "probe:route_ok:2hops", "probe:route_ok:3hops", "probe:share_vs_withdraw"] {
            ev.require_counter(c, 10);
        }
    }
    ev.finish()
}

pub fn replay(doc: &Value) -> bool {
    let tier = doc["tier"].as_str().unwrap_or("quick");
    let name = doc["scenario"].as_str().unwrap_or("");
    let r = RouterScn { property: "C14".into(), fees: TYPICAL };
    if name == r.name() {
        return replay_trace(&r, doc);
    }
    let v = vault_scn(tier);
    if name == v.name() {
        return replay_trace(&v, doc);
    }
    let t = trio_scn(tier);
    if name == t.name() {
        return replay_trace(&t, doc);
    }
    for s in [pair_scn(tier, None), pair_scn(tier, Some(100))] {
        if name == s.name() {
            return replay_trace(&s, doc);
        }
    }
    false
}
