//! C08 — bonding: every bonded token is bonded, unbonding, or back with its owner.
use serde_json::Value;

use crate::deploy::{ALICE, BOB, CAROL};
use crate::engine::{default_cfg, explore, replay_trace, Evidence};
use crate::scn_lair::LairScn;

pub fn scenario(tier: &str) -> LairScn {
    let users: Vec<String> = vec![ALICE.into(), BOB.into(), CAROL.into()];
    let _ = tier;
    LairScn { users, period_ns: 1_000_000_000_000 }
}

pub fn run(tier: &str, seed: u64) -> i32 {
    let mut ev = Evidence::new("C08", tier, seed);
    ev.assumptions = vec![
        "fee distributor has no epoch yet (id 0), so bonding is never blocked by unclaimed rewards or a stale epoch; those interactions are explored in C09".into(),
        "time advances only through explicit environment actions {1ns, period-1ns, period, 1 day}; all other actions happen in the same block".into(),
    ];
    let depth = if tier == "quick" { 4 } else { 6 };
    let cfg = default_cfg("C08", tier, seed, depth);
    ev.add_report(explore(&scenario(tier), &cfg));
    if ev.violations.is_empty() {
        for c in ["bond:ok", "unbond:ok", "unbond:same_block_same_user_denom", "withdraw:ok", "withdraw:rejected", "bad:attempt"] {
            ev.require_counter(c, 1);
        }
    }
    ev.finish()
}

pub fn replay(doc: &Value) -> bool {
    let tier = doc["tier"].as_str().unwrap_or("quick");
    replay_trace(&scenario(tier), doc)
}
