//! C03 — two-asset stableswap pool: the invariant never leaks value to traders or depositors.
//! (a) exhaustive grid on the real compute_swap / LP-mint functions (hook) against an
//! independently solved curve on decimal-normalised reserves; (b) BFS histories on the real
//! deployed stableswap pair.

use std::panic::{catch_unwind, AssertUnwindSafe};

use cosmwasm_std::Uint128;
use serde_json::{json, Value};
use terraswap_pair::verif_hooks::{compute_lp_mint_amount_for_stableswap_deposit, compute_swap};
use white_whale_std::pool_network::asset::PairType;

use crate::big::{b, pow10, U1024};
use crate::deploy::{Fee3, ONE18};
use crate::engine::{default_cfg, explore, replay_trace, Cx, Evidence};
use crate::grid::par_index;
use crate::refmath::{norm, stable_d, stable_y, NORM_DEC};
use crate::scn_pair::{Kinds, PairRoot, PairScn, Probe};

pub const DECS: [(u8, u8); 6] = [(6, 6), (6, 8), (8, 6), (6, 18), (18, 6), (4, 5)];
pub const AMPS: [u64; 7] = [1, 2, 10, 100, 1000, 100_000, 1_000_000];

fn fees() -> Vec<Fee3> {
    vec![
        Fee3::new(0, 0, 0),
        Fee3::new(ONE18 / 1000, 2 * ONE18 / 1000, ONE18 / 1000),
        Fee3::new(1, 1, 1),
        Fee3::new(3 * ONE18 / 10, 3 * ONE18 / 10, 3 * ONE18 / 10),
        Fee3::new(ONE18 - 1, 0, 0),
        Fee3::new(0, 0, ONE18 / 2),
    ]
}

#[derive(Clone, Copy, Debug)]
pub struct Pt {
    pub offer_pool: u128,
    pub ask_pool: u128,
    pub offer: u128,
    pub amp: u64,
    pub dec: (u8, u8),
    pub fee: Fee3,
}

fn pt_json(p: &Pt) -> Value {
    json!({"offer_pool": p.offer_pool.to_string(), "ask_pool": p.ask_pool.to_string(), "offer": p.offer.to_string(), "amp": p.amp, "decimals": [p.dec.0, p.dec.1],
           "fee": {"protocol": p.fee.protocol.to_string(), "swap": p.fee.swap.to_string(), "burn": p.fee.burn.to_string()}})
}
fn pt_from(v: &Value) -> Pt {
    let g = |k: &str| v[k].as_str().unwrap().parse::<u128>().unwrap();
    let f = |k: &str| v["fee"][k].as_str().unwrap().parse::<u128>().unwrap();
    Pt { offer_pool: g("offer_pool"), ask_pool: g("ask_pool"), offer: g("offer"), amp: v["amp"].as_u64().unwrap(), dec: (v["decimals"][0].as_u64().unwrap() as u8, v["decimals"][1].as_u64().unwrap() as u8), fee: Fee3::new(f("protocol"), f("swap"), f("burn")) }
}

/// whole-token magnitudes (in units of 1e-3 tokens so that 1.5 is representable)
fn magnitudes(full: bool) -> Vec<u128> {
    if full {
        vec![1_000, 1_500, 10_000, 1_000_000, 1_000_000_000, 1_000_000_000_000, 37_000_000_000_000_000, MAG_MAX]
    } else {
        vec![1_000, 1_500, 10_000, 1_000_000_000, 1_000_000_000_000, MAG_MAX]
    }
}
/// marker magnitude: "as many tokens as fit in 2^100 base units"
const MAG_MAX: u128 = u128::MAX;

fn base_units(milli_tokens: u128, dec: u8) -> Option<u128> {
    if milli_tokens == MAG_MAX {
        return Some(1u128 << 100);
    }
    // milli_tokens * 10^dec / 1000
    let v = b(milli_tokens) * pow10(dec as u32) / b(1000);
    if v > b(1u128 << 100) || v.is_zero() {
        None
    } else {
        Some(v.low_u128())
    }
}

pub fn build_grid(tier: &str) -> Vec<Pt> {
    let full = tier != "quick";
    let mags = magnitudes(full);
    let mut pts = vec![];
    let fs = fees();
    for dec in DECS.iter() {
        for &mx in &mags {
            for &my in &mags {
                let (Some(x), Some(y)) = (base_units(mx, dec.0), base_units(my, dec.1)) else { continue };
                // offers: 1 base unit, 1e-3 token, 1 token, 10%, 100%, 10x of the offer reserve
                let mut offers: Vec<u128> = vec![1, base_units(1, dec.0).unwrap_or(1), base_units(1000, dec.0).unwrap_or(1), (x / 10).max(1), x, x.saturating_mul(10)];
                offers.sort();
                offers.dedup();
                for amp in AMPS.iter() {
                    if !full && !matches!(*amp, 1 | 100 | 1_000_000) {
                        continue;
                    }
                    for (fi, f) in fs.iter().enumerate() {
                        if !full && fi >= 3 {
                            continue;
                        }
                        for &o in &offers {
                            if o > (1u128 << 100) {
                                continue;
                            }
                            pts.push(Pt { offer_pool: x, ask_pool: y, offer: o, amp: *amp, dec: *dec, fee: *f });
                        }
                    }
                }
            }
        }
    }
    pts
}

fn real_swap(p: &Pt, offer: u128) -> Result<terraswap_pair::verif_hooks::SwapComputation, String> {
    let r = catch_unwind(AssertUnwindSafe(|| {
        compute_swap(Uint128::new(p.offer_pool), Uint128::new(p.ask_pool), Uint128::new(offer), p.fee.pool(), &PairType::StableSwap { amp: p.amp }, p.dec.0, p.dec.1)
    }));
    match r {
        Ok(Ok(c)) => Ok(c),
        Ok(Err(e)) => Err(e.to_string()),
        Err(_) => Err(format!("panic: {}", crate::world::LAST_PANIC.with(|p| p.borrow().clone()))),
    }
}

/// exact curve point (ask reserve after the swap, in ask base units, rounded up) and local slope
fn curve(p: &Pt, offer: u128) -> (U1024, U1024) {
    let xn = norm(p.offer_pool, p.dec.0);
    let yn = norm(p.ask_pool, p.dec.1);
    let d = stable_d(p.amp, &[xn, yn]);
    let unit_a = pow10(NORM_DEC - p.dec.1 as u32);
    let y_after = stable_y(p.amp, d, &[xn + norm(offer, p.dec.0)]);
    let y_after_base = (y_after + unit_a - U1024::one()) / unit_a;
    // slope at the start point: ask base units released per offer base unit
    let y_one = stable_y(p.amp, d, &[xn + norm(1, p.dec.0)]);
    let slope_n = yn.saturating_sub(y_one);
    let mut slope = (slope_n + unit_a - U1024::one()) / unit_a;
    if slope < U1024::one() {
        slope = U1024::one();
    }
    (y_after_base, slope)
}

pub fn check_point(p: &Pt, cx: &mut Cx) {
    match real_swap(p, p.offer) {
        Err(_) => cx.count("swap:aborted"),
        Ok(c) => {
            cx.count("swap:ok");
            let (ret, sf, pf, bf) = (c.return_amount.u128(), c.swap_fee_amount.u128(), c.protocol_fee_amount.u128(), c.burn_fee_amount.u128());
            let gross = ret + sf + pf + bf;
            if gross > 0 {
                cx.count("swap:gross>0");
            }
            cx.check("swap.proceeds_never_exceed_ask_reserve", gross <= p.ask_pool, || format!("gross {} > ask reserve {}", gross, p.ask_pool));
            let fee = |s: u128| (b(gross) * b(s) / b(ONE18)).low_u128();
            cx.check("swap.fees_are_floor_share_of_gross", pf == fee(p.fee.protocol) && sf == fee(p.fee.swap) && bf == fee(p.fee.burn), || format!("gross {} fees ({},{},{})", gross, pf, sf, bf));
            let (y_curve, slope) = curve(p, p.offer);
            let delta = b(2) + b(2) * slope;
            let left = b(p.ask_pool.saturating_sub(gross));
            // known-finding class: the pair solves the curve at the ASK asset's precision (D and the offer reserve are
            // truncated to the ask asset's decimals). When the offer asset has more decimals, one ask-precision unit of
            // rounding on the offer side moves the ask side by the curve's slope in whole-token terms; a shortfall within
            // 2 + 2 * that slope (in ask base units) is attributed to this finding, anything larger is a new violation
            let shortfall = y_curve.saturating_sub(left);
            let sig = if p.dec.0 > p.dec.1 {
                let xn = norm(p.offer_pool, p.dec.0);
                let yn = norm(p.ask_pool, p.dec.1);
                let unit_a = pow10(NORM_DEC - p.dec.1 as u32);
                let d = stable_d(p.amp, &[xn, yn]);
                let coarse = (yn.saturating_sub(stable_y(p.amp, d, &[xn + unit_a])) + unit_a - U1024::one()) / unit_a;
                if shortfall <= b(2) + b(2) * coarse.max(U1024::one()) {
                    "ask-precision-math"
                } else {
                    ""
                }
            } else {
                ""
            };
            cx.check_sig("swap.pool_keeps_curve_reserve_up_to_dust", sig, left + delta >= y_curve, || {
                format!("ask reserve after swap {} < curve point {} - dust {} (slope {}), gross out {}", left, y_curve, delta, slope, gross)
            });
            // proceeds do not decrease when the offer grows (next larger offers)
            for bigger in [p.offer.saturating_add(1), p.offer.saturating_mul(2)] {
                if bigger > p.offer && bigger <= (1u128 << 101) {
                    if let Ok(c2) = real_swap(p, bigger) {
                        let g2 = c2.return_amount.u128() + c2.swap_fee_amount.u128() + c2.protocol_fee_amount.u128() + c2.burn_fee_amount.u128();
                        cx.check("swap.proceeds_monotone_in_offer", g2 >= gross, || format!("offer {} -> gross {}, offer {} -> gross {}", p.offer, gross, bigger, g2));
                    }
                }
            }
        }
    }
}

/// LP mint: minted * D0 <= S * (D1 - D0) + dust, D over *normalised* reserves
pub fn check_mint(p: &Pt, cx: &mut Cx) {
    // reuse the point: reserves (offer_pool, ask_pool); deposit shapes: (offer, the same token amount / 3 of
    // the other asset) and, once per reserve point, heavily one-sided deposits
    let d0a = p.offer;
    let d1a = (b(p.offer) * pow10(p.dec.1 as u32) / pow10(p.dec.0 as u32) / b(3)).low_u128().max(1);
    check_mint_deposit(p, d0a, d1a, cx);
    if p.offer == 1 {
        for (x, y) in [(1u128, p.ask_pool), (p.offer_pool, 1u128), (1, (p.ask_pool / 10).max(1)), (p.offer_pool, p.ask_pool)] {
            check_mint_deposit(p, x, y, cx);
        }
    }
}

fn check_mint_deposit(p: &Pt, d0a: u128, d1a: u128, cx: &mut Cx) {
    if d1a > (1u128 << 100) || d0a > (1u128 << 100) {
        return;
    }
    let supply = {
        // a plausible supply: the contract's own first-deposit rule mints D(raw) (it is only a scale factor here)
        let s = terraswap_pair::verif_hooks::compute_d(&p.amp, Uint128::new(p.offer_pool), Uint128::new(p.ask_pool));
        match s.and_then(|x| Uint128::try_from(x).ok()) {
            Some(s) if !s.is_zero() => s.u128(),
            _ => return,
        }
    };
    let r = catch_unwind(AssertUnwindSafe(|| {
        compute_lp_mint_amount_for_stableswap_deposit(&p.amp, Uint128::new(d0a), Uint128::new(d1a), Uint128::new(p.offer_pool), Uint128::new(p.ask_pool), Uint128::new(supply))
    }));
    let minted = match r {
        Ok(Some(m)) => m.u128(),
        _ => {
            cx.count("mint:none");
            return;
        }
    };
    cx.count("mint:ok");
    let dn0 = stable_d(p.amp, &[norm(p.offer_pool, p.dec.0), norm(p.ask_pool, p.dec.1)]);
    let dn1 = stable_d(p.amp, &[norm(p.offer_pool + d0a, p.dec.0), norm(p.ask_pool + d1a, p.dec.1)]);
    // the contract works with integer invariants (Newton, +-1 base unit each): allow D0 and D1 to be
    // off by two base units of the coarser asset in the unfavourable direction
    let u2 = crate::refmath::lp_dust(&[p.dec.0, p.dec.1]) / b(4);
    let d0_lo = dn0.saturating_sub(u2);
    let lhs = b(minted) * d0_lo;
    let mut rhs = b(supply) * ((dn1 + u2).saturating_sub(d0_lo));
    if lhs > rhs {
        // heavily imbalanced pool: dust scaled by the curve's local slope
        let sd = crate::refmath::slope_dust_norm(p.amp, &[p.offer_pool, p.ask_pool], &[p.dec.0, p.dec.1]);
        rhs = b(supply) * ((dn1 + sd).saturating_sub(d0_lo));
        cx.count("mint:slope_dust_used");
    }
    // the known finding covers exactly "minted from the invariant over raw amounts" with unequal decimals
    let sig = if p.dec.0 != p.dec.1 && lhs > rhs && crate::refmath::explained_by_raw_invariant(p.amp, [p.offer_pool, p.ask_pool], [p.offer_pool + d0a, p.ask_pool + d1a], supply, minted) {
        "unequal-decimals-deposit"
    } else {
        ""
    };
    cx.check_sig("deposit.mints_at_most_invariant_growth", sig, lhs <= rhs, || {
        format!("reserves ({},{}) decimals {:?} amp {}: deposit ({},{}) with supply {} mints {} but D_norm {} -> {}", p.offer_pool, p.ask_pool, p.dec, p.amp, d0a, d1a, supply, minted, dn0, dn1)
    });
}

pub fn history_scn(tier: &str) -> Vec<PairScn> {
    let mut v = vec![];
    let amps: Vec<u64> = if tier == "quick" { vec![100] } else { vec![10, 100] };
    for amp in amps {
        let mut roots = vec![];
        // (6,8): close decimals, where a mix-up of the two still yields a solvable but wrong curve
        let decs: Vec<[u8; 2]> = if tier == "quick" { vec![[6, 6], [6, 18], [6, 8]] } else { vec![[6, 6], [6, 18], [6, 8], [8, 6]] };
        for d in decs {
            let one = |dec: u8| 10u128.pow(dec as u32);
            for (fi, f) in [Fee3::new(ONE18 / 1000, 2 * ONE18 / 1000, ONE18 / 1000), Fee3::new(0, 0, 0)].iter().enumerate() {
                if tier == "quick" && fi == 1 && d != [6, 6] {
                    continue;
                }
                roots.push(PairRoot {
                    label: format!("amp{}/dec{:?}/fees{}", amp, d, fi),
                    kinds: Kinds::NC,
                    decimals: d,
                    fees: *f,
                    first: [1000 * one(d[0]), 1000 * one(d[1])],
                    pre_swaps: fi == 0,
                });
            }
        }
        v.push(PairScn { property: "C03".into(), stable_amp: Some(amp), roots, fee_alphabet: vec![Fee3::new(0, 0, 0)], probe: Probe::None, reduced: true });
    }
    v
}

pub fn run(tier: &str, seed: u64) -> i32 {
    let mut ev = Evidence::new("C03", tier, seed);
    ev.assumptions = vec![
        "curve: Ann*sum(x)+D = Ann*D + D^3/(4xy) with Ann = 2*amp (the pool's own convention), solved by bisection on reserves normalised to 18 decimals".into(),
        "rounding dust for swaps: 2 + 2*ceil(max(1,|dy/dx|)) base units of the ask asset; for LP value: 8 base units of the coarser asset".into(),
        "grid: whole-token magnitudes {1,1.5,10,1e3,1e6,1e9,..} x offers {1 unit,1e-3,1,10%,100%,10x} x amp x 6 decimal pairs x fees; reserves <= 2^100 base units".into(),
    ];
    let pts = build_grid(tier);
    let res = par_index(pts.len(), 3, |i, cx| {
        check_point(&pts[i], cx);
        if pts[i].fee.protocol == 0 && pts[i].fee.swap == 0 && pts[i].fee.burn == 0 {
            check_mint(&pts[i], cx);
        }
    });
    let n = pts.len();
    ev.add_grid_result("stableswap-formula-grid", "reserves x offers x amp x decimals x fees on compute_swap and the LP-mint formula (hook); non-trivial = gross > 0", res, &|i| pt_json(&pts[i]), &[0, n / 3, n / 2, n - 1]);
    if ev.violations.is_empty() {
        let depth = if tier == "quick" { 3 } else { 4 };
        let cfg = default_cfg("C03", tier, seed, depth);
        for scn in history_scn(tier) {
            if ev.violations.is_empty() {
                ev.add_report(explore(&scn, &cfg));
            }
        }
    }
    if ev.violations.is_empty() {
        for c in ["swap:ok", "swap:gross>0", "mint:ok", "provide:ok", "withdraw:ok", "probe:deposit_withdraw"] {
            ev.require_counter(c, 1);
        }
    }
    ev.finish()
}

pub fn replay(doc: &Value) -> bool {
    if doc["kind"] == "point" {
        let p = pt_from(&doc["point"]);
        let mut cx = Cx { verbose: true, ..Default::default() };
        println!("point {}", pt_json(&p));
        println!("compute_swap -> {:?}", real_swap(&p, p.offer));
        let (y, s) = curve(&p, p.offer);
        println!("independent curve: ask reserve after swap >= {} (slope {})", y, s);
        check_point(&p, &mut cx);
        check_mint(&p, &mut cx);
        let want = doc["oracle"].as_str().unwrap_or("");
        let mut rep = false;
        for v in &cx.violations {
            println!("  !! {} [{}]: {}", v.oracle, v.sig, v.detail);
            if v.oracle == want {
                rep = true;
            }
        }
        println!("reproduced={rep}");
        return rep;
    }
    let tier = doc["tier"].as_str().unwrap_or("quick");
    let name = doc["scenario"].as_str().unwrap_or("");
    for scn in history_scn(tier) {
        use crate::engine::Scenario;
        if scn.name() == name {
            return replay_trace(&scn, doc);
        }
    }
    false
}
