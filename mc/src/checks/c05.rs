//! C05 — flash-loan vault: depositor share price never decreases.
use serde_json::Value;

use crate::deploy::{Fee3, ONE18};
use crate::engine::{default_cfg, explore, replay_trace, Evidence};
use crate::scn_vault::{VaultRoot, VaultScn};

pub const FEES: [Fee3; 4] = [
    Fee3::new(0, 0, 0),
    Fee3::new(ONE18 / 1000, 2 * ONE18 / 1000, ONE18 / 2000),
    Fee3::new(ONE18 / 10, ONE18 / 10, ONE18 / 10),
    Fee3::new(1, 1, 1),
];

pub fn roots(tier: &str) -> Vec<VaultRoot> {
    let mut v = vec![];
    let fees: Vec<usize> = if tier == "quick" { vec![1, 2] } else { vec![0, 1, 2, 3] };
    let firsts: Vec<(u128, bool)> = if tier == "quick" { vec![(0, false), (1_000_000, true), (1001, false)] } else { vec![(0, false), (1001, false), (1_000_000, false), (1_000_000, true), (10u128.pow(30), true)] };
    for cw20 in [false, true] {
        for f in &fees {
            for (first, pre) in &firsts {
                v.push(VaultRoot { label: format!("cw20={}/fees{}/first{}/preloan={}", cw20, f, first, pre), cw20, fees: FEES[*f], first: *first, pre_loan: *pre });
            }
        }
    }
    // vaults on the scale of an 18-decimals asset: 1e24 base units, every amount far above 2^64
    if tier == "quick" {
        for cw20 in [false, true] {
            v.push(VaultRoot { label: format!("cw20={}/fees1/first{}/preloan=true", cw20, 10u128.pow(24)), cw20, fees: FEES[1], first: 10u128.pow(24), pre_loan: true });
        }
    }
    // vaults holding half of the 128-bit range (2^127 base units, plus the fees of one loan): anything that passes a balance
    // through a narrower or signed type on one path only shows here
    for cw20 in [false, true] {
        v.push(VaultRoot { label: format!("cw20={}/fees1/first2^127/preloan=true", cw20), cw20, fees: FEES[1], first: 1u128 << 127, pre_loan: true });
    }
    // a native vault over an ibc voucher denom
    v.push(VaultRoot { label: "cw20=false/fees1/first1000000/preloan=true/ibc-denom".into(), cw20: false, fees: FEES[1], first: 1_000_000, pre_loan: true });
    v
}

pub fn scenario(tier: &str) -> VaultScn {
    VaultScn { property: "C05".into(), roots: roots(tier), fee_alphabet: vec![FEES[0], FEES[2]], probe_share: false }
}

pub fn run(tier: &str, seed: u64) -> i32 {
    let mut ev = Evidence::new("C05", tier, seed);
    ev.assumptions = vec![
        "cw-multi-test 0.16.5 chain semantics; borrower is a scripted contract (repay exact / +1000 / -1 / fail)".into(),
        "amount alphabet {1,999,1000,1001,1e6,7*balance}; histories bounded by the stated depth".into(),
    ];
    let depth = if tier == "quick" { 3 } else { 4 };
    let scn = scenario(tier);
    let cfg = default_cfg("C05", tier, seed, depth);
    ev.add_report(explore(&scn, &cfg));
    for c in ["deposit:ok", "deposit:first", "withdraw:ok", "loan:ok", "loan:reverted", "loan:protocol_fee>0", "collect:nonzero", "probe:deposit_withdraw", "setfees:ok"] {
        ev.require_counter(c, 1);
    }
    ev.finish()
}

pub fn replay(doc: &Value) -> bool {
    let tier = doc["tier"].as_str().unwrap_or("quick");
    replay_trace(&scenario(tier), doc)
}
