//! C20 — epoch clocks only move forward, one epoch at a time, never early.
use serde_json::Value;

use crate::engine::{default_cfg, explore, replay_trace, Evidence};
use crate::scn_epoch::{ERoot, EpochScn};
use crate::scn_lair::DAY_NS;

pub fn scenario(tier: &str) -> EpochScn {
    let mut roots = vec![
        ERoot { label: "manager/1d/0hooks".into(), distributor: false, duration_ns: DAY_NS, hooks: 0, genesis_frac_ns: 0, genesis_zero: false },
        ERoot { label: "manager/1d/2hooks".into(), distributor: false, duration_ns: DAY_NS, hooks: 2, genesis_frac_ns: 0, genesis_zero: false },
        ERoot { label: "distributor/1d".into(), distributor: true, duration_ns: DAY_NS, hooks: 0, genesis_frac_ns: 0, genesis_zero: false },
    ];
    // clocks that do not fall on whole seconds: genesis at +0.75 s, duration one day and one nanosecond
    roots.push(ERoot { label: "manager/1d+1ns/1hook/genesis+0.75s".into(), distributor: false, duration_ns: DAY_NS + 1, hooks: 1, genesis_frac_ns: 750_000_000, genesis_zero: false });
    roots.push(ERoot { label: "manager/1d/0hooks/genesis+0.75s".into(), distributor: false, duration_ns: DAY_NS, hooks: 0, genesis_frac_ns: 750_000_000, genesis_zero: false });
    roots.push(ERoot { label: "distributor/1d+1ns/genesis+0.75s".into(), distributor: true, duration_ns: DAY_NS + 1, hooks: 0, genesis_frac_ns: 750_000_000, genesis_zero: false });
    // genesis at time 0 (the default configuration): every epoch since 1970 is overdue, so creations succeed back to
    // back in one block and the start times must still advance by one duration each
    roots.push(ERoot { label: "distributor/1d/genesis0".into(), distributor: true, duration_ns: DAY_NS, hooks: 0, genesis_frac_ns: 0, genesis_zero: true });
    // (the epoch manager refuses a start time in the past at instantiation, so only the distributor can be configured so)
    if tier != "quick" {
        roots.push(ERoot { label: "manager/3d/3hooks".into(), distributor: false, duration_ns: 3 * DAY_NS, hooks: 3, genesis_frac_ns: 0, genesis_zero: false });
        roots.push(ERoot { label: "manager/3d/1hook".into(), distributor: false, duration_ns: 3 * DAY_NS, hooks: 1, genesis_frac_ns: 0, genesis_zero: false });
        roots.push(ERoot { label: "distributor/3d".into(), distributor: true, duration_ns: 3 * DAY_NS, hooks: 0, genesis_frac_ns: 0, genesis_zero: false });
    }
    EpochScn { roots }
}

pub fn run(tier: &str, seed: u64) -> i32 {
    let mut ev = Evidence::new("C20", tier, seed);
    ev.assumptions = vec![
        "block time is an explicit environment action with targets {genesis-duration-1ns, genesis-duration, genesis-1ns, genesis, boundary-1ns, boundary, boundary+1ns, boundary+2.5 durations}; time never goes backwards".into(),
        "a native panic inside the contract (Timestamp underflow before genesis) is a reverted transaction".into(),
        "distributor world: empty pool and vault factories, so NewEpoch forwards no fees (the pipeline itself is C10)".into(),
    ];
    let depth = if tier == "quick" { 9 } else { 13 };
    let cfg = default_cfg("C20", tier, seed, depth);
    ev.add_report(explore(&scenario(tier), &cfg));
    if ev.violations.is_empty() {
        for c in ["create:ok", "create:ok_late", "create:rejected", "create:rejected_panic", "hooks:notified", "hook:changed"] {
            ev.require_counter(c, 1);
        }
    }
    ev.finish()
}

pub fn replay(doc: &Value) -> bool {
    let tier = doc["tier"].as_str().unwrap_or("quick");
    replay_trace(&scenario(tier), doc)
}
