//! C18 — stored configuration is always within its documented bounds.
use serde_json::Value;

use crate::engine::{default_cfg, explore, replay_trace, Evidence, Scenario};
use crate::scn_config::ConfigScn;

pub fn run(tier: &str, seed: u64) -> i32 {
    let mut ev = Evidence::new("C18", tier, seed);
    ev.assumptions = vec![
        "write paths: factory create, factory-mediated update, owner update, and direct instantiate of each contract by an arbitrary account".into(),
        "the epoch manager has no documented duration bound; 'epoch duration >= 1 day' is checked on the fee distributor where it is documented and enforced".into(),
        "default cargo features: a vault over a token-factory denom cannot be instantiated (its cw20 LP symbol is rejected), so the 'no burn fee on token-factory assets' clause is checked over all attempts and reported with the number of reachable such vaults".into(),
    ];
    let depth = if tier == "quick" { 3 } else { 4 };
    for group in ["pools", "ramps", "vaults", "governance"] {
        if !ev.violations.is_empty() {
            break;
        }
        let cfg = default_cfg("C18", tier, seed, depth);
        ev.add_report(explore(&ConfigScn { group: group.to_string() }, &cfg));
    }
    if ev.violations.is_empty() {
        for c in ["write:accepted", "write:rejected", "grace:increased"] {
            ev.require_counter(c, 10);
        }
    }
    ev.finish()
}

pub fn replay(doc: &Value) -> bool {
    let name = doc["scenario"].as_str().unwrap_or("");
    for group in ["pools", "ramps", "vaults", "governance"] {
        let s = ConfigScn { group: group.to_string() };
        if s.name() == name {
            return replay_trace(&s, doc);
        }
    }
    false
}
