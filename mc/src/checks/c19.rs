//! C19 — factories and router: one child per asset set; the registry tells the truth.
use serde_json::Value;

use crate::engine::{default_cfg, explore, replay_trace, Evidence, Scenario};
use crate::scn_registry::RegistryScn;

fn scns(tier: &str) -> Vec<(RegistryScn, usize)> {
    let quick = tier == "quick";
    vec![
        (RegistryScn { group: "pools".into(), n_assets: if quick { 3 } else { 4 } }, if quick { 4 } else { 5 }),
        (RegistryScn { group: "trios".into(), n_assets: 4 }, if quick { 3 } else { 4 }),
        (RegistryScn { group: "vaults".into(), n_assets: if quick { 3 } else { 4 } }, if quick { 6 } else { 8 }),
        (RegistryScn { group: "vaults-many".into(), n_assets: 13 }, if quick { 2 } else { 3 }),
        (RegistryScn { group: "vaults-prefix".into(), n_assets: if quick { 4 } else { 6 } }, if quick { 4 } else { 5 }),
        (RegistryScn { group: "pools-ibc".into(), n_assets: 3 }, if quick { 3 } else { 4 }),
        (RegistryScn { group: "pools-long".into(), n_assets: 3 }, if quick { 3 } else { 4 }),
        (RegistryScn { group: "router".into(), n_assets: 4 }, if quick { 4 } else { 5 }),
    ]
}

pub fn run(tier: &str, seed: u64) -> i32 {
    let mut ev = Evidence::new("C19", tier, seed);
    ev.assumptions = vec![
        "asset universe of 3 (quick) / 4 (thorough) assets, alternating native (registered decimals 6,7,..) and cw20; the universe avoids denoms whose concatenated keys collide".into(),
        "pagination is iterated with the documented cursor (the asset infos / reference of the last item) for every limit 1..n+1".into(),
    ];
    for (scn, depth) in scns(tier) {
        if !ev.violations.is_empty() {
            break;
        }
        let cfg = default_cfg("C19", tier, seed, depth);
        ev.add_report(explore(&scn, &cfg));
    }
    if ev.violations.is_empty() {
        for c in ["pair:created", "pair:removed", "pair:duplicate_rejected", "trio:created", "trio:removed", "vault:created", "vault:removed", "incentive:created", "route:added", "route:rejected", "route:executed", "route:exec_rejected_unregistered_hop", "pagination:evaluated", "pagination:trios_multi_entry"] {
            ev.require_counter(c, 1);
        }
    }
    ev.finish()
}

pub fn replay(doc: &Value) -> bool {
    let tier = doc["tier"].as_str().unwrap_or("quick");
    let name = doc["scenario"].as_str().unwrap_or("");
    for (s, _) in scns(tier) {
        if s.name() == name {
            return replay_trace(&s, doc);
        }
    }
    false
}
