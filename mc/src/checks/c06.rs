//! C06 — flash loans are repaid with all fees or the whole transaction reverts.
//! Exhaustive enumeration of borrower scripts (adversary alphabet composed up to depth 2/3,
//! including nested loans) x loan amounts x fee triples x {native, cw20} on the real vault,
//! and of router payloads on the real vault_router.

use cosmwasm_std::{to_json_binary, Addr, BankMsg, CosmosMsg, Uint128, WasmMsg};
use serde_json::{json, Value};
use white_whale_std::pool_network::asset::AssetInfo;
use white_whale_std::vault_network::vault_router::ExecuteMsg as RouterExec;

use crate::deploy::*;
use crate::engine::{Cx, Evidence};
use crate::grid::par_index_with;
use crate::helpers::AdvMsg;
use crate::scn_vault::*;
use crate::world::{coin, Snapshot, World};

pub const FEES: [Fee3; 4] = [
    Fee3::new(ONE18 / 1000, 2 * ONE18 / 1000, ONE18 / 2000),
    Fee3::new(0, 0, 0),
    Fee3::new(1, 1, 1),
    Fee3::new(33 * ONE18 / 100, 33 * ONE18 / 100, 33 * ONE18 / 100),
];

fn base_steps() -> Vec<Step> {
    vec![
        Step::Repay(RepayKind::Exact),
        Step::Repay(RepayKind::Minus1),
        Step::Repay(RepayKind::Plus1),
        Step::Repay(RepayKind::Zero),
        Step::Repay(RepayKind::Double),
        Step::Fail,
        Step::Deposit(1000),
        Step::WithdrawShares(2000),
        Step::Collect,
        Step::UpdateConfigAttempt,
        Step::CallAfterTrade,
    ]
}

fn seqs(alpha: &[Step], max_len: usize) -> Vec<Vec<Step>> {
    let mut out: Vec<Vec<Step>> = vec![vec![]];
    let mut last: Vec<Vec<Step>> = vec![vec![]];
    for _ in 0..max_len {
        let mut next = vec![];
        for s in &last {
            for a in alpha {
                let mut t = s.clone();
                t.push(a.clone());
                next.push(t);
            }
        }
        out.extend(next.iter().cloned());
        last = next;
    }
    out
}

/// all scripts: sequences of length <= max_len over base steps + Nested(amount, sub) with
/// sub-scripts of length <= sub_len over the base steps
pub fn scripts(max_len: usize, sub_len: usize, nested_amounts: &[u64]) -> Vec<Vec<Step>> {
    let base = base_steps();
    let mut alpha = base.clone();
    for sub in seqs(&base, sub_len) {
        for a in nested_amounts {
            alpha.push(Step::Nested { amount: *a, sub: sub.clone() });
        }
    }
    seqs(&alpha, max_len)
}

#[derive(Clone)]
struct RootCase {
    cw20: bool,
    fee: Fee3,
    h: VH,
    snap: Snapshot,
    /// size of the first deposit
    first: u128,
}

fn build_root(cw20: bool, fee: Fee3) -> RootCase {
    build_root_sized(cw20, fee, 1_000_000)
}

/// shares with digits down to the 18th decimal (1/300, 1/7000, 1/3000)
pub const FINE_FEES: Fee3 = Fee3::new(ONE18 / 300, ONE18 / 7000, ONE18 / 3000);

fn build_root_sized(cw20: bool, fee: Fee3, first: u128) -> RootCase {
    let mut w = World::new();
    let r = VaultRoot { label: "c06".into(), cw20, fees: fee, first, pre_loan: true };
    let h = deploy_vault(&r, &mut w);
    vault_deposit(&mut w, &h, ALICE, r.first).expect("first deposit");
    // (tolerated if it fails: an exactly repaid loan being refused is reported by loan.exact_payback_suffices on the cases)
    let _ = direct_loan(&mut w, &h, &fee, first * 2 / 5, &[Step::Repay(RepayKind::Exact)]);
    // the adversary owns vault shares it can withdraw inside a callback
    let msgs = compile(&h, &fee, 0, &[Step::Deposit(5000)]);
    // (tolerated if it fails: the scripts that withdraw shares then simply revert; a vault that refuses deposits after a
    // completed loan is caught by loan.counter_back_to_zero on the first case)
    let _ = w.exec(MALLORY, &h.adversary, &AdvMsg::Forward { msgs }, &[]);
    RootCase { cw20, fee, h, snap: w.snapshot(), first }
}

pub struct Case {
    pub root: usize,
    pub amount: u128,
    pub script: Vec<Step>,
}

fn case_json(roots: &[RootCase], c: &Case) -> Value {
    json!({"cw20": roots[c.root].cw20, "fee": {"protocol": roots[c.root].fee.protocol.to_string(), "flash": roots[c.root].fee.swap.to_string(), "burn": roots[c.root].fee.burn.to_string()},
           "root": c.root, "first": roots[c.root].first.to_string(), "amount": c.amount.to_string(), "script": c.script, "path": "direct"})
}

fn run_case(w: &mut World, rc: &RootCase, amount: u128, script: &[Step], cx: &mut Cx) {
    w.restore(&rc.snap);
    let h = &rc.h;
    let pre = observe(w, h);
    let quote = payback_quote(w, h, amount);
    let f = rc.fee;
    let exact = amount + fee_of(f.protocol, amount) + fee_of(f.swap, amount) + fee_of(f.burn, amount);
    cx.check("quote.payback_is_loan_plus_floor_fees", quote.as_ref().map(|q| q.payback_amount.u128()) == Some(exact), || {
        format!("GetPaybackAmount({}) = {:?}, expected {}", amount, quote.as_ref().map(|q| q.payback_amount.u128()), exact)
    });
    let kv_before = w.kv_clone();
    let r = direct_loan(w, h, &f, amount, script);
    let post = observe(w, h);
    loan_oracles(cx, w, h, &f, amount, script, &r, &pre, &post, "");
    if r.is_err() {
        cx.check("revert.leaves_everything_untouched", crate::world::kv_equal(&kv_before, &w.kv_clone()), || "state changed although the loan transaction failed".to_string());
    }
    // a Deposit step that runs while the loan is outstanding must make the whole thing fail
    fn has_deposit(s: &[Step]) -> bool {
        s.iter().any(|x| match x {
            Step::Deposit(_) => true,
            Step::Nested { sub, .. } => has_deposit(sub),
            _ => false,
        })
    }
    if has_deposit(script) {
        cx.check("loan.no_deposit_while_outstanding", r.is_err(), || format!("script {:?} deposits inside the callback and the transaction succeeded", script));
    }
    if script == [Step::Repay(RepayKind::Exact)] && amount <= pre.vault_bal {
        cx.check("loan.exact_payback_suffices", r.is_ok(), || format!("loan {} repaid exactly was rejected: {:?}", amount, r.as_ref().err().map(|e| e.msg().to_string())));
    }
    if script == [Step::Repay(RepayKind::Minus1)] {
        cx.check("loan.one_unit_less_never_suffices", r.is_err(), || format!("loan {} repaid one unit short was accepted", amount));
    }
    if r.is_ok() {
        let d = post.vault_bal as i128 - pre.vault_bal as i128;
        cx.count(&format!("outcome:ok:delta_sign={}", d.signum()));
    }
}

// ------------------------------------------------------------------ router

fn router_payloads(h: &VH, f: &Fee3, amount: u128) -> Vec<(String, Vec<CosmosMsg>)> {
    let fees = fee_of(f.protocol, amount) + fee_of(f.swap, amount) + fee_of(f.burn, amount);
    let to_router = |x: u128| -> Option<CosmosMsg> {
        if x == 0 {
            return None;
        }
        let inner: CosmosMsg = match &h.asset {
            AssetInfo::NativeToken { denom } => BankMsg::Send { to_address: h.router.clone(), amount: vec![coin(x, denom)] }.into(),
            AssetInfo::Token { contract_addr } => WasmMsg::Execute {
                contract_addr: contract_addr.clone(),
                msg: to_json_binary(&cw20::Cw20ExecuteMsg::Transfer { recipient: h.router.clone(), amount: Uint128::new(x) }).unwrap(),
                funds: vec![],
            }
            .into(),
        };
        Some(WasmMsg::Execute { contract_addr: h.adversary.clone(), msg: to_json_binary(&AdvMsg::Forward { msgs: vec![inner] }).unwrap(), funds: vec![] }.into())
    };
    let steal = |x: u128| -> Option<CosmosMsg> {
        if x == 0 {
            return None;
        }
        Some(match &h.asset {
            AssetInfo::NativeToken { denom } => BankMsg::Send { to_address: CAROL.to_string(), amount: vec![coin(x, denom)] }.into(),
            AssetInfo::Token { contract_addr } => WasmMsg::Execute {
                contract_addr: contract_addr.clone(),
                msg: to_json_binary(&cw20::Cw20ExecuteMsg::Transfer { recipient: CAROL.to_string(), amount: Uint128::new(x) }).unwrap(),
                funds: vec![],
            }
            .into(),
        })
    };
    let fail: CosmosMsg = WasmMsg::Execute { contract_addr: h.adversary.clone(), msg: to_json_binary(&AdvMsg::Fail {}).unwrap(), funds: vec![] }.into();
    let mut atoms: Vec<(String, Option<CosmosMsg>)> = vec![
        ("topup_exact_fees".into(), to_router(fees)),
        ("topup_fees_minus1".into(), to_router(fees.saturating_sub(1))),
        ("topup_fees_plus7".into(), to_router(fees + 7)),
        ("steal_1".into(), steal(1)),
        ("steal_all".into(), steal(amount)),
        ("fail".into(), Some(fail)),
    ];
    atoms.push(("nothing".into(), None));
    let mut out = vec![];
    for (n1, m1) in &atoms {
        out.push((n1.clone(), m1.iter().cloned().collect::<Vec<_>>()));
        for (n2, m2) in &atoms {
            let mut v: Vec<CosmosMsg> = m1.iter().cloned().collect();
            v.extend(m2.iter().cloned());
            out.push((format!("{n1}+{n2}"), v));
        }
    }
    out
}

fn run_router_case(w: &mut World, rc: &RootCase, amount: u128, name: &str, payload: &[CosmosMsg], cx: &mut Cx) {
    w.restore(&rc.snap);
    let h = &rc.h;
    let f = rc.fee;
    let (p, fl, bu) = (fee_of(f.protocol, amount), fee_of(f.swap, amount), fee_of(f.burn, amount));
    let pre = observe(w, h);
    let bal = |w: &World, a: &str| info_balance(w, &h.asset, a);
    let (r0, i0, a0, c0) = (bal(w, &h.router), bal(w, MALLORY), bal(w, &h.adversary), bal(w, CAROL));
    let kv_before = w.kv_clone();
    let r = w.exec(MALLORY, &h.router, &RouterExec::FlashLoan { assets: vec![asset(&h.asset, amount)], msgs: payload.to_vec() }, &[]);
    let post = observe(w, h);
    match &r {
        Ok(_) => {
            cx.count("router:ok");
            let (r1, i1, a1, c1) = (bal(w, &h.router), bal(w, MALLORY), bal(w, &h.adversary), bal(w, CAROL));
            cx.check("router.keeps_nothing", r1 == 0 && r0 == 0, || format!("payload {}: router balance {} -> {}", name, r0, r1));
            cx.check("router.vault_gets_exactly_the_quote", post.vault_bal == pre.vault_bal + p + fl, || format!("payload {}: vault balance {} -> {} but quoted fees are {}+{} (burn {})", name, pre.vault_bal, post.vault_bal, p, fl, bu));
            // conservation: whatever the adversary/third parties put in beyond the payback goes to the initiator
            let put_in = (a0 - a1) as i128 - (c1 - c0) as i128;
            cx.check("router.initiator_gets_the_remainder", (i1 as i128 - i0 as i128) == put_in - (p + fl + bu) as i128, || {
                format!("payload {}: initiator delta {} but adversary paid {} carol got {} fees {}", name, i1 as i128 - i0 as i128, a0 - a1, c1 - c0, p + fl + bu)
            });
            cx.check("loan.burn_fee_destroyed", pre.supply - post.supply == bu && post.burned - pre.burned == bu, || format!("payload {}: burn mismatch", name));
            cx.check("loan.protocol_fee_recorded", post.all_time - pre.all_time == p, || format!("payload {}: protocol fee ledger +{} expected {}", name, post.all_time - pre.all_time, p));
            cx.check("loan.counter_back_to_zero", loan_counter(w, h) == Some(0), || "loan counter != 0".to_string());
        }
        Err(e) => {
            cx.count("router:reverted");
            cx.note(|| format!("reverted: {}", e.msg()));
            cx.check("revert.leaves_everything_untouched", crate::world::kv_equal(&kv_before, &w.kv_clone()), || "state changed although the router loan failed".to_string());
        }
    }
    if name == "topup_exact_fees" && amount <= pre.vault_bal {
        cx.check("router.exact_topup_suffices", r.is_ok(), || format!("router loan {} with exactly the fees topped up failed: {:?}", amount, r.as_ref().err().map(|e| e.msg().to_string())));
    }
    if name == "topup_fees_minus1" && p + fl + bu > 0 {
        cx.check("router.one_unit_less_never_suffices", r.is_err(), || format!("router loan {} with fees-1 topped up succeeded", amount));
    }
}

/// NextLoan / CompleteLoan called by anyone but the vault / the router itself must fail.
fn router_callbacks_guarded(w: &mut World, rc: &RootCase, cx: &mut Cx) {
    w.restore(&rc.snap);
    let h = &rc.h;
    let next = RouterExec::NextLoan {
        initiator: Addr::unchecked(MALLORY),
        source_vault: h.vault.clone(),
        source_vault_asset_info: h.asset.clone(),
        payload: vec![],
        to_loan: vec![],
        loaned_assets: vec![(h.vault.clone(), asset(&h.asset, 0))],
    };
    let complete = RouterExec::CompleteLoan { initiator: Addr::unchecked(MALLORY), loaned_assets: vec![(h.vault.clone(), asset(&h.asset, 0))] };
    for (who, via_contract) in [(MALLORY, false), (ALICE, false), (MALLORY, true)] {
        for (nm, m) in [("NextLoan", &next), ("CompleteLoan", &complete)] {
            let r = if via_contract {
                let inner: CosmosMsg = WasmMsg::Execute { contract_addr: h.router.clone(), msg: to_json_binary(m).unwrap(), funds: vec![] }.into();
                w.exec(who, &h.adversary, &AdvMsg::Forward { msgs: vec![inner] }, &[])
            } else {
                w.exec(who, &h.router, m, &[])
            };
            cx.check("router.callbacks_only_from_vault_or_self", r.is_err(), || format!("{} called by {} (via contract: {}) succeeded", nm, who, via_contract));
        }
    }
}

pub fn run(tier: &str, seed: u64) -> i32 {
    let mut ev = Evidence::new("C06", tier, seed);
    ev.assumptions = vec![
        "borrower behaviours are the enumerated adversary alphabet (11 base steps + nested loans whose callback is again a script); a borrower that swallows sub-message failures with reply-on-error is not modelled".into(),
        "vault root: 1e6 deposited, pending protocol fees from one earlier loan, adversary pre-seeded with 5000 shares".into(),
    ];
    let quick = tier == "quick";
    let fee_idx: Vec<usize> = if quick { vec![0, 3] } else { vec![0, 1, 2, 3] };
    let mut roots = vec![];
    for cw20 in [false, true] {
        for fi in &fee_idx {
            roots.push(build_root(cw20, FEES[*fi]));
        }
    }
    // vault balance at the root
    let bal = {
        let mut w = World::new();
        w.restore(&roots[0].snap);
        vault_balance(&w, &roots[0].h)
    };
    let amounts: Vec<u128> = if quick { vec![1000, bal, bal + 1] } else { vec![1, 999, 1000, 1_000_000, bal, bal + 1] };
    // quick: length<=2 scripts whose nested loans carry sub-scripts of length<=2 (one nested amount);
    // thorough: two nested amounts, plus length-3 scripts below
    let mut all = if quick { scripts(2, 2, &[1000]) } else { scripts(2, 2, &[1000, 300_000]) };
    if quick {
        // the second nested amount with shallow sub-scripts
        all.extend(scripts(2, 1, &[300_000]).into_iter().filter(|s| s.iter().any(|x| matches!(x, Step::Nested { .. }))));
    }
    if !quick {
        // depth-3 scripts over the base alphabet + nested loans with sub-scripts of length <= 1
        let extra = scripts(3, 1, &[1000]);
        all.extend(extra.into_iter().filter(|s| s.len() == 3));
    }
    let mut cases: Vec<Case> = vec![];
    for (ri, _) in roots.iter().enumerate() {
        for a in &amounts {
            for s in &all {
                cases.push(Case { root: ri, amount: *a, script: s.clone() });
            }
        }
    }
    if quick {
        // loans that charge no fee at all (every share floors to zero on a dust amount; the all-zero fee triple):
        // short scripts only, the full product is the thorough tier's
        let short = scripts(1, 1, &[1000]);
        for (ri, _) in roots.iter().enumerate() {
            for s in &short {
                cases.push(Case { root: ri, amount: 1, script: s.clone() });
            }
        }
        for cw20 in [false, true] {
            roots.push(build_root(cw20, FEES[1]));
            for a in [1u128, 1000] {
                for s in &short {
                    cases.push(Case { root: roots.len() - 1, amount: a, script: s.clone() });
                }
            }
        }
    }
    // a large vault (1e13) with fine-grained fee shares: loans of billions of units, where a share truncated to fewer
    // decimals changes the floor (both tiers, short scripts)
    {
        let short = scripts(1, 1, &[1000]);
        roots.push(build_root_sized(false, FINE_FEES, 10_000_000_000_000));
        for a in [3_000_000_007u128, 1_000_000_000_000] {
            for s in &short {
                cases.push(Case { root: roots.len() - 1, amount: a, script: s.clone() });
            }
        }
        // vaults on the scale of an 18-decimals asset (a million whole tokens = 1e24 base units), native and cw20: loans whose
        // individual fees exceed 2^64 base units
        for cw20 in [false, true] {
            roots.push(build_root_sized(cw20, FINE_FEES, 10u128.pow(24)));
            for a in [4 * 10u128.pow(23) + 7, 10u128.pow(24)] {
                for s in &short {
                    cases.push(Case { root: roots.len() - 1, amount: a, script: s.clone() });
                }
            }
        }
    }
    let res = par_index_with(cases.len(), 3, World::new, |i, cx, w| {
        let c = &cases[i];
        run_case(w, &roots[c.root], c.amount, &c.script, cx);
    });
    let n = cases.len();
    ev.add_grid_result(
        "direct-loan-scripts",
        "every borrower script (length<=2 full alphabet incl. nested loans; thorough adds length 3) x loan amounts x fee triples x {native,cw20}; non-trivial = transaction succeeded with non-zero fees",
        res,
        &|i| case_json(&roots, &cases[i]),
        &[1, n / 7, n / 2, n - 1],
    );
    // router payloads
    let mut rcases: Vec<(usize, u128, String, Vec<CosmosMsg>)> = vec![];
    for (ri, rc) in roots.iter().enumerate() {
        for a in &amounts {
            for (name, p) in router_payloads(&rc.h, &rc.fee, *a) {
                rcases.push((ri, *a, name, p));
            }
        }
    }
    let res2 = par_index_with(rcases.len(), 3, World::new, |i, cx, w| {
        let (ri, a, name, p) = &rcases[i];
        run_router_case(w, &roots[*ri], *a, name, p, cx);
        if i < roots.len() {
            router_callbacks_guarded(w, &roots[i], cx);
        }
    });
    let m = rcases.len();
    ev.add_grid_result(
        "router-payloads",
        "vault_router::FlashLoan with every payload of <=2 atoms (top up exact/-1/+7, steal 1/all, fail, nothing) x amounts x fee triples x {native,cw20}",
        res2,
        &|i| json!({"path": "router", "root": rcases[i].0, "cw20": roots[rcases[i].0].cw20, "amount": rcases[i].1.to_string(), "payload": rcases[i].2}),
        &[0, m / 2, m - 1],
    );
    ev.validated = ev.counters.get("loan:ok").cloned().unwrap_or(0) + ev.counters.get("router:ok").cloned().unwrap_or(0);
    if ev.violations.is_empty() {
        for c in ["loan:ok", "loan:ok_with_fees", "loan:reverted", "router:ok", "router:reverted", "oracle:loan.no_deposit_while_outstanding", "oracle:router.callbacks_only_from_vault_or_self"] {
            ev.require_counter(c, 1);
        }
    }
    ev.finish()
}

pub fn replay(doc: &Value) -> bool {
    let p = &doc["point"];
    let cw20 = p["cw20"].as_bool().unwrap();
    let mut cx = Cx { verbose: true, ..Default::default() };
    let mut w = World::new();
    if p["path"] == "router" {
        let tier = "thorough";
        let _ = tier;
        // rebuild the root list in the same order as `run` to find the fee triple
        let mut found = None;
        'o: for fis in [vec![0usize, 3], vec![0, 1, 2, 3]] {
            let mut idx = 0;
            for c in [false, true] {
                for fi in &fis {
                    if idx == p["root"].as_u64().unwrap() as usize && c == cw20 {
                        found = Some(FEES[*fi]);
                        break 'o;
                    }
                    idx += 1;
                }
            }
        }
        let fee = found.expect("root");
        let rc = build_root(cw20, fee);
        let amount: u128 = p["amount"].as_str().unwrap().parse().unwrap();
        let name = p["payload"].as_str().unwrap();
        let pl = router_payloads(&rc.h, &fee, amount).into_iter().find(|(n, _)| n == name).expect("payload");
        run_router_case(&mut w, &rc, amount, name, &pl.1, &mut cx);
    } else {
        let g = |k: &str| p["fee"][k].as_str().unwrap().parse::<u128>().unwrap();
        let fee = Fee3::new(g("protocol"), g("flash"), g("burn"));
        // (the fine-grained fee triple only occurs on the large vault)
        let rc = match p["first"].as_str().and_then(|x| x.parse::<u128>().ok()) {
            Some(first) => build_root_sized(cw20, fee, first),
            None => if fee.protocol == FINE_FEES.protocol && fee.swap == FINE_FEES.swap { build_root_sized(cw20, fee, 10_000_000_000_000) } else { build_root(cw20, fee) },
        };
        let amount: u128 = p["amount"].as_str().unwrap().parse().unwrap();
        let script: Vec<Step> = serde_json::from_value(p["script"].clone()).unwrap();
        println!("direct loan {} script {:?} fee {:?} cw20 {}", amount, script, fee, cw20);
        run_case(&mut w, &rc, amount, &script, &mut cx);
    }
    for l in &cx.log {
        println!("    {l}");
    }
    let want = doc["oracle"].as_str().unwrap_or("");
    let mut rep = false;
    for v in &cx.violations {
        println!("  !! {} [{}]: {}", v.oracle, v.sig, v.detail);
        if v.oracle == want {
            rep = true;
        }
    }
    println!("reproduced={rep}");
    rep
}
