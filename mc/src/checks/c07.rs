//! C07 — protocol and burn fee accounting in pair (CP + stableswap), trio and vault.
use serde_json::Value;

use crate::deploy::{Fee3, ONE18};
use crate::engine::{default_cfg, explore, replay_trace, Evidence};
use crate::scn_pair::{Kinds, PairRoot, PairScn, Probe};
use crate::scn_vault::{VaultRoot, VaultScn};

pub const PFEES: [Fee3; 4] = [
    Fee3::new(ONE18 / 1000, 2 * ONE18 / 1000, ONE18 / 1000),
    Fee3::new(ONE18 / 100, 0, ONE18 / 50),
    Fee3::new(0, ONE18 / 100, 0),
    // no protocol fee but a burn fee: the burn ledger moves while the protocol ledgers do not
    Fee3::new(0, ONE18 / 1000, ONE18 / 100),
];

pub fn pair_scn(tier: &str, stable: Option<u64>) -> PairScn {
    let mut roots = vec![];
    let kinds: Vec<Kinds> = if tier == "quick" { vec![Kinds::NC] } else { vec![Kinds::NN, Kinds::NC, Kinds::CC] };
    for k in kinds {
        for (fi, f) in PFEES.iter().enumerate().take(2) {
            for pre in [false, true] {
                if tier == "quick" && pre && fi == 1 {
                    continue;
                }
                roots.push(PairRoot {
                    label: format!("{:?}/fees{}/preswaps={}", k, fi, pre),
                    kinds: k,
                    decimals: [6, 6],
                    fees: *f,
                    first: [10u128.pow(12), 10u128.pow(12)],
                    pre_swaps: pre,
                });
            }
        }
    }
    // reserves on the scale of 18-decimals assets: single protocol and burn charges above 2^64 base units
    roots.push(PairRoot { label: "NN/fees0/preswaps=true/1e24".into(), kinds: Kinds::NN, decimals: [18, 18], fees: PFEES[0], first: [10u128.pow(24), 10u128.pow(24)], pre_swaps: true });
    roots.push(PairRoot { label: "NC/fees0/preswaps=true/1e24".into(), kinds: Kinds::NC, decimals: [18, 18], fees: PFEES[0], first: [10u128.pow(24), 10u128.pow(24)], pre_swaps: true });
    // a pool of two token-factory denoms sharing their subdenom (constant product only)
    if stable.is_none() {
        roots.push(PairRoot { label: "FF/fees0/preswaps=true".into(), kinds: Kinds::FF, decimals: [6, 6], fees: PFEES[0], first: [10u128.pow(12), 10u128.pow(12)], pre_swaps: true });
    }
    PairScn { property: "C07".into(), stable_amp: stable, roots, fee_alphabet: vec![PFEES[1], PFEES[2], PFEES[3]], probe: Probe::None, reduced: false }
}

pub fn vault_scn(tier: &str) -> VaultScn {
    let mut roots = vec![];
    for cw20 in [false, true] {
        for (fi, f) in PFEES.iter().enumerate().take(2) {
            for pre in [false, true] {
                if tier == "quick" && pre && fi == 1 {
                    continue;
                }
                roots.push(VaultRoot { label: format!("cw20={}/fees{}/preloan={}", cw20, fi, pre), cw20, fees: *f, first: 10u128.pow(12), pre_loan: pre });
            }
        }
    }
    // a vault on the scale of an 18-decimals asset
    for cw20 in [false, true] {
        roots.push(VaultRoot { label: format!("cw20={}/fees0/preloan=true/1e24", cw20), cw20, fees: PFEES[0], first: 10u128.pow(24), pre_loan: true });
    }
    VaultScn { property: "C07".into(), roots, fee_alphabet: vec![PFEES[1], PFEES[2], PFEES[3]], probe_share: false }
}

pub fn run(tier: &str, seed: u64) -> i32 {
    let mut ev = Evidence::new("C07", tier, seed);
    ev.assumptions = vec![
        "each scenario uses a fresh fee collector with no other income, so collector balance == fees transferred".into(),
        "operation sizes chosen so that a single charge lands in {0,1,500,999,1000,1001,1e6}; histories bounded by the stated depth".into(),
    ];
    let depth = if tier == "quick" { 3 } else { 4 };
    let cfg = default_cfg("C07", tier, seed, depth);
    ev.add_report(explore(&pair_scn(tier, None), &cfg));
    if ev.violations.is_empty() {
        ev.add_report(explore(&pair_scn(tier, Some(100)), &cfg));
    }
    if ev.violations.is_empty() {
        ev.add_report(explore(&crate::checks::c04::c07_trio_scn(tier), &cfg));
    }
    if ev.violations.is_empty() {
        ev.add_report(explore(&vault_scn(tier), &cfg));
    }
    if ev.violations.is_empty() {
        for c in ["swap:ok", "swap:protocol_fee>0", "swap:burn_fee>0", "collect:nonzero", "collect:sub_threshold_pending", "loan:protocol_fee>0", "loan:burn_fee>0", "setfees:ok"] {
            ev.require_counter(c, 1);
        }
    }
    ev.finish()
}

pub fn replay(doc: &Value) -> bool {
    let tier = doc["tier"].as_str().unwrap_or("quick");
    let name = doc["scenario"].as_str().unwrap_or("");
    if name.starts_with("vault") {
        replay_trace(&vault_scn(tier), doc)
    } else if name.starts_with("trio") {
        replay_trace(&crate::checks::c04::c07_trio_scn(tier), doc)
    } else if name.contains("stable") {
        replay_trace(&pair_scn(tier, Some(100)), doc)
    } else {
        replay_trace(&pair_scn(tier, None), doc)
    }
}
