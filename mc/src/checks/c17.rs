//! C17 — pause switches stop exactly the operation they name.
//! Fully enumerated: pool type / vault x 2^3 toggle combinations x {with, without liquidity}
//! x every entry path of every operation; differential oracle against the all-enabled control.

use cosmwasm_std::{to_json_binary, Coin, CosmosMsg, Decimal, Uint128, WasmMsg};
use serde_json::{json, Value};
use white_whale_std::pool_network::asset::{AssetInfo, PairType};
use white_whale_std::pool_network::router::{ExecuteMsg as RouterExec, SwapOperation};

use crate::deploy::*;
use crate::engine::{Cx, Evidence};
use crate::helpers::AdvMsg;
use crate::scn_trio::{trio_provide, trio_swap, trio_withdraw};
use crate::scn_vault::{compile, deploy_vault, fee_of, vault_deposit, vault_withdraw, RepayKind, Step, VH, VaultRoot};
use crate::world::{coin, kv_equal, Snapshot, TxResult, World};

const FEES: Fee3 = Fee3::new(ONE18 / 1000, 2 * ONE18 / 1000, ONE18 / 1000);

#[derive(Clone, Copy, Debug, PartialEq, Eq)]
pub enum Op {
    Deposit,
    Withdraw,
    Swap,
}

#[derive(Clone)]
pub struct PoolWorld {
    kind: String,
    hub: PoolHub,
    router: String,
    helper: String,
    incentive: String,
    p1: Option<PairH>, // X(native) - Y(cw20), the pool under test (pair kinds)
    p2: Option<PairH>, // Y - Z, always enabled
    trio: Option<TrioH>,
    assets: Vec<AssetInfo>,
    liquidity: bool,
    snap: Snapshot,
}

fn build_pool(kind: &str, liquidity: bool) -> PoolWorld {
    let mut w = World::new();
    let hub = deploy_pool_hub(&mut w, &[("uxxx", 6), ("uzzz", 6), ("uqqq", 6)]);
    let y = token(&w.new_cw20("tyy", 6, &[], OWNER));
    let assets = vec![native("uxxx"), y.clone(), native("uzzz"), native("uqqq")];
    for u in [ALICE, BOB, MALLORY] {
        for a in &assets {
            fund(&mut w, a, u, 1u128 << 90);
        }
    }
    let router = w.instantiate(w.codes.router, OWNER, &white_whale_std::pool_network::router::InstantiateMsg { terraswap_factory: hub.factory.clone() }, &[], "router", Some(OWNER)).unwrap();
    let mockdist = w.instantiate(w.codes.fee_distributor_mock, OWNER, &fee_distributor_mock::msg::InstantiateMsg {}, &[], "mockdist", None).unwrap();
    let ifactory = w
        .instantiate(
            w.codes.incentive_factory,
            OWNER,
            &white_whale_std::pool_network::incentive_factory::InstantiateMsg {
                fee_collector_addr: hub.collector.clone(),
                fee_distributor_addr: mockdist,
                create_flow_fee: asset(&native("uqqq"), 1000),
                max_concurrent_flows: 3,
                incentive_code_id: w.codes.incentive,
                max_flow_epoch_buffer: 14,
                min_unbonding_duration: 86_400,
                max_unbonding_duration: 31_556_926,
            },
            &[],
            "ifactory",
            Some(OWNER),
        )
        .unwrap();
    let helper = w.instantiate(w.codes.frontend_helper, OWNER, &white_whale_std::pool_network::frontend_helper::InstantiateMsg { incentive_factory: ifactory.clone() }, &[], "helper", Some(OWNER)).unwrap();
    let mut pw = PoolWorld { kind: kind.to_string(), hub: hub.clone(), router, helper, incentive: String::new(), p1: None, p2: None, trio: None, assets: assets.clone(), liquidity, snap: w.snapshot() };
    if kind == "trio" {
        let t = create_trio(&mut w, &hub, [assets[0].clone(), assets[1].clone(), assets[2].clone()], FEES.trio(), 100).unwrap();
        if liquidity {
            trio_provide(&mut w, &t, ALICE, [1_000_000_000; 3], None).unwrap();
        }
        pw.trio = Some(t);
    } else {
        let pt = if kind == "stable" { PairType::StableSwap { amp: 100 } } else { PairType::ConstantProduct };
        let p1 = create_pair(&mut w, &hub, [assets[0].clone(), assets[1].clone()], FEES.pool(), pt).unwrap();
        let p2 = create_pair(&mut w, &hub, [assets[1].clone(), assets[2].clone()], FEES.pool(), PairType::ConstantProduct).unwrap();
        pair_provide(&mut w, &p2, ALICE, [1_000_000_000, 1_000_000_000], None, None).unwrap();
        if liquidity {
            pair_provide(&mut w, &p1, ALICE, [1_000_000_000, 1_000_000_000], None, None).unwrap();
        }
        let lp = token(&p1.lp);
        w.exec(OWNER, &ifactory, &white_whale_std::pool_network::incentive_factory::ExecuteMsg::CreateIncentive { lp_asset: lp.clone() }, &[]).unwrap();
        let inc: white_whale_std::pool_network::incentive_factory::IncentiveResponse = w.query(&ifactory, &white_whale_std::pool_network::incentive_factory::QueryMsg::Incentive { lp_asset: lp }).unwrap();
        pw.incentive = inc.unwrap().to_string();
        pw.p1 = Some(p1);
        pw.p2 = Some(p2);
    }
    pw.snap = w.snapshot();
    pw
}

fn set_pool_toggles(w: &mut World, pw: &PoolWorld, t: (bool, bool, bool)) -> TxResult {
    // (withdrawals, deposits, swaps), through the factory (the pools' owner)
    if let Some(tr) = &pw.trio {
        w.exec(
            OWNER,
            &pw.hub.factory,
            &white_whale_std::pool_network::factory::ExecuteMsg::UpdateTrioConfig {
                trio_addr: tr.addr.clone(),
                owner: None,
                fee_collector_addr: None,
                pool_fees: None,
                feature_toggle: Some(white_whale_std::pool_network::trio::FeatureToggle { withdrawals_enabled: t.0, deposits_enabled: t.1, swaps_enabled: t.2 }),
                amp_factor: None,
            },
            &[],
        )
    } else {
        w.exec(
            OWNER,
            &pw.hub.factory,
            &white_whale_std::pool_network::factory::ExecuteMsg::UpdatePairConfig {
                pair_addr: pw.p1.as_ref().unwrap().addr.clone(),
                owner: None,
                fee_collector_addr: None,
                pool_fees: None,
                feature_toggle: Some(white_whale_std::pool_network::pair::FeatureToggle { withdrawals_enabled: t.0, deposits_enabled: t.1, swaps_enabled: t.2 }),
            },
            &[],
        )
    }
}

/// the switches together with every other optional field (current fees, current collector, a valid 2x ramp)
fn set_pool_toggles_combined(w: &mut World, pw: &PoolWorld, t: (bool, bool, bool)) -> TxResult {
    if let Some(tr) = &pw.trio {
        let height = w.height();
        w.exec(
            OWNER,
            &pw.hub.factory,
            &white_whale_std::pool_network::factory::ExecuteMsg::UpdateTrioConfig {
                trio_addr: tr.addr.clone(),
                owner: None,
                fee_collector_addr: Some(pw.hub.collector.clone()),
                pool_fees: Some(FEES.trio()),
                feature_toggle: Some(white_whale_std::pool_network::trio::FeatureToggle { withdrawals_enabled: t.0, deposits_enabled: t.1, swaps_enabled: t.2 }),
                amp_factor: Some(white_whale_std::pool_network::trio::RampAmp { future_a: 200, future_block: height + 200_000 }),
            },
            &[],
        )
    } else {
        w.exec(
            OWNER,
            &pw.hub.factory,
            &white_whale_std::pool_network::factory::ExecuteMsg::UpdatePairConfig {
                pair_addr: pw.p1.as_ref().unwrap().addr.clone(),
                owner: None,
                fee_collector_addr: Some(pw.hub.collector.clone()),
                pool_fees: Some(FEES.pool()),
                feature_toggle: Some(white_whale_std::pool_network::pair::FeatureToggle { withdrawals_enabled: t.0, deposits_enabled: t.1, swaps_enabled: t.2 }),
            },
            &[],
        )
    }
}

/// entry paths: (name, operation)
fn pool_paths(pw: &PoolWorld) -> Vec<(&'static str, Op)> {
    if pw.trio.is_some() {
        vec![("provide_direct", Op::Deposit), ("withdraw_send_hook", Op::Withdraw), ("withdraw_direct_msg", Op::Withdraw), ("swap_native_direct", Op::Swap), ("swap_cw20_send", Op::Swap)]
    } else {
        vec![
            ("provide_direct", Op::Deposit),
            ("provide_via_frontend_helper", Op::Deposit),
            ("withdraw_send_hook", Op::Withdraw),
            ("withdraw_direct_msg", Op::Withdraw),
            ("swap_native_direct", Op::Swap),
            ("swap_cw20_send", Op::Swap),
            ("swap_router_1hop_native", Op::Swap),
            ("swap_router_1hop_cw20_send", Op::Swap),
            ("swap_router_2hop_first_hop", Op::Swap),
            ("swap_router_2hop_second_hop", Op::Swap),
        ]
    }
}

fn exec_pool_path(w: &mut World, pw: &PoolWorld, path: &str) -> TxResult {
    let half = Some(Decimal::percent(50));
    let op = |a: usize, bb: usize| SwapOperation::TerraSwap { offer_asset_info: pw.assets[a].clone(), ask_asset_info: pw.assets[bb].clone() };
    if let Some(t) = &pw.trio {
        return match path {
            "provide_direct" => trio_provide(w, t, BOB, [1_000_000, 1_000_000, 1_000_000], None),
            "withdraw_send_hook" => trio_withdraw(w, t, ALICE, 1_000_000),
            "withdraw_direct_msg" => w.exec(ALICE, &t.addr, &white_whale_std::pool_network::trio::ExecuteMsg::WithdrawLiquidity {}, &[]),
            "swap_native_direct" => trio_swap(w, t, BOB, 0, 2, 1_000_000, None, half),
            _ => trio_swap(w, t, BOB, 1, 0, 1_000_000, None, half),
        };
    }
    let p1 = pw.p1.as_ref().unwrap();
    match path {
        "provide_direct" => pair_provide(w, p1, BOB, [1_000_000, 1_000_000], None, None),
        "provide_via_frontend_helper" => {
            let assets = [asset(&p1.assets[0], 1_000_000), asset(&p1.assets[1], 1_000_000)];
            if let AssetInfo::Token { contract_addr } = &p1.assets[1] {
                crate::scn_incentive::set_allowance(w, contract_addr, BOB, &pw.helper, 1_000_000);
            }
            let r = w.exec(
                BOB,
                &pw.helper,
                &white_whale_std::pool_network::frontend_helper::ExecuteMsg::Deposit { pair_address: p1.addr.clone(), assets: assets.clone(), slippage_tolerance: None, unbonding_duration: 86_400 },
                &funds_for(&assets),
            );
            if r.is_err() {
                if let AssetInfo::Token { contract_addr } = &p1.assets[1] {
                    crate::scn_incentive::set_allowance(w, contract_addr, BOB, &pw.helper, 0);
                }
            }
            r
        }
        "withdraw_send_hook" => pair_withdraw(w, &p1.addr, &p1.lp, ALICE, 1_000_000),
        "withdraw_direct_msg" => w.exec(ALICE, &p1.addr, &white_whale_std::pool_network::pair::ExecuteMsg::WithdrawLiquidity {}, &[]),
        "swap_native_direct" => pair_swap(w, &p1.addr, BOB, &p1.assets[0], 1_000_000, None, half, None),
        "swap_cw20_send" => pair_swap(w, &p1.addr, BOB, &p1.assets[1], 1_000_000, None, half, None),
        "swap_router_1hop_native" => w.exec(BOB, &pw.router, &RouterExec::ExecuteSwapOperations { operations: vec![op(0, 1)], minimum_receive: None, to: None, max_spread: half }, &[coin(1_000_000, "uxxx")]),
        "swap_router_1hop_cw20_send" => {
            let AssetInfo::Token { contract_addr } = &pw.assets[1] else { unreachable!() };
            w.exec(
                BOB,
                contract_addr,
                &cw20::Cw20ExecuteMsg::Send {
                    contract: pw.router.clone(),
                    amount: Uint128::new(1_000_000),
                    msg: to_json_binary(&white_whale_std::pool_network::router::Cw20HookMsg::ExecuteSwapOperations { operations: vec![op(1, 0)], minimum_receive: None, to: None, max_spread: half }).unwrap(),
                },
                &[],
            )
        }
        "swap_router_2hop_first_hop" => w.exec(BOB, &pw.router, &RouterExec::ExecuteSwapOperations { operations: vec![op(0, 1), op(1, 2)], minimum_receive: None, to: None, max_spread: half }, &[coin(1_000_000, "uxxx")]),
        _ => w.exec(BOB, &pw.router, &RouterExec::ExecuteSwapOperations { operations: vec![op(2, 1), op(1, 0)], minimum_receive: None, to: None, max_spread: half }, &[coin(1_000_000, "uzzz")]),
    }
}

fn pool_observe(w: &World, pw: &PoolWorld) -> Vec<u128> {
    let mut holders: Vec<String> = vec![ALICE.into(), BOB.into(), pw.hub.collector.clone(), pw.router.clone(), pw.helper.clone()];
    let mut assets = pw.assets.clone();
    if let Some(t) = &pw.trio {
        holders.push(t.addr.clone());
        assets.push(token(&t.lp));
    } else {
        let p1 = pw.p1.as_ref().unwrap();
        holders.push(p1.addr.clone());
        holders.push(pw.p2.as_ref().unwrap().addr.clone());
        holders.push(pw.incentive.clone());
        assets.push(token(&p1.lp));
    }
    let mut v = vec![];
    for hh in &holders {
        for a in &assets {
            v.push(info_balance(w, a, hh));
        }
    }
    v
}

fn toggles_all() -> Vec<(bool, bool, bool)> {
    let mut v = vec![];
    for a in [true, false] {
        for bb in [true, false] {
            for c in [true, false] {
                v.push((a, bb, c));
            }
        }
    }
    v
}

fn check_pool(pw: &PoolWorld, cx: &mut Cx, cases: &mut Vec<Value>) {
    let mut w = World::new();
    w.restore(&pw.snap);
    // fresh pools start with everything enabled
    let fresh_ok = if let Some(t) = &pw.trio {
        let c: white_whale_std::pool_network::trio::Config = w.query(&t.addr, &white_whale_std::pool_network::trio::QueryMsg::Config {}).unwrap();
        c.feature_toggle.deposits_enabled && c.feature_toggle.swaps_enabled && c.feature_toggle.withdrawals_enabled
    } else {
        let c: white_whale_std::pool_network::pair::Config = w.query(&pw.p1.as_ref().unwrap().addr, &white_whale_std::pool_network::pair::QueryMsg::Config {}).unwrap();
        c.feature_toggle.deposits_enabled && c.feature_toggle.swaps_enabled && c.feature_toggle.withdrawals_enabled
    };
    cx.check("fresh.everything_enabled", fresh_ok, || format!("{} pool does not start with all operations enabled", pw.kind));
    // control outcomes (all enabled)
    let paths = pool_paths(pw);
    let mut control: Vec<(bool, Vec<i128>)> = vec![];
    for (p, _) in &paths {
        w.restore(&pw.snap);
        let b0 = pool_observe(&w, pw);
        let r = exec_pool_path(&mut w, pw, p);
        let b1 = pool_observe(&w, pw);
        control.push((r.is_ok(), b0.iter().zip(b1.iter()).map(|(x, y)| *y as i128 - *x as i128).collect()));
    }
    for t in toggles_all() {
        w.restore(&pw.snap);
        set_pool_toggles(&mut w, pw, t).expect("toggle update");
        let toggled = w.snapshot();
        for (pi, (p, op)) in paths.iter().enumerate() {
            w.restore(&toggled);
            let enabled = match op {
                Op::Withdraw => t.0,
                Op::Deposit => t.1,
                Op::Swap => t.2,
            };
            let before = w.kv_clone();
            let b0 = pool_observe(&w, pw);
            let r = exec_pool_path(&mut w, pw, p);
            let b1 = pool_observe(&w, pw);
            let deltas: Vec<i128> = b0.iter().zip(b1.iter()).map(|(x, y)| *y as i128 - *x as i128).collect();
            cases.push(json!({"pool": pw.kind, "liquidity": pw.liquidity, "toggles(w,d,s)": [t.0, t.1, t.2], "path": p, "ok": r.is_ok()}));
            cx.count("case");
            if !enabled {
                cx.count("case:disabled");
                cx.check("disabled.every_entry_path_rejected", r.is_err(), || format!("{} pool (liquidity {}) toggles {:?}: {} succeeded although its operation is disabled", pw.kind, pw.liquidity, t, p));
                cx.check("disabled.moves_nothing", kv_equal(&before, &w.kv_clone()), || format!("{} toggles {:?}: {} changed state although disabled", pw.kind, t, p));
            } else {
                cx.count("case:enabled");
                if control[pi].0 {
                    cx.count("case:enabled_and_control_succeeds");
                }
                cx.check("enabled.behaves_as_in_all_enabled_control", r.is_ok() == control[pi].0 && deltas == control[pi].1, || {
                    format!("{} pool (liquidity {}) toggles {:?}: {} ok={} but control ok={}; deltas differ: {}", pw.kind, pw.liquidity, t, p, r.is_ok(), control[pi].0, deltas != control[pi].1)
                });
            }
        }
    }
    // the same switches sent together with every other optional field of the update (fees, collector address and,
    // for the three-asset pool, a valid amp ramp): the switches must be stored and enforced all the same
    for t in toggles_all() {
        w.restore(&pw.snap);
        w.advance(0, 1);
        let r = set_pool_toggles_combined(&mut w, pw, t);
        cx.check("combined_update.accepted", r.is_ok(), || format!("{} pool: update carrying switches {:?} together with fees/collector/ramp was rejected: {:?}", pw.kind, t, r.as_ref().err().map(|e| e.msg().to_string())));
        let stored = if let Some(tr) = &pw.trio {
            let c: white_whale_std::pool_network::trio::Config = w.query(&tr.addr, &white_whale_std::pool_network::trio::QueryMsg::Config {}).unwrap();
            (c.feature_toggle.withdrawals_enabled, c.feature_toggle.deposits_enabled, c.feature_toggle.swaps_enabled)
        } else {
            let c: white_whale_std::pool_network::pair::Config = w.query(&pw.p1.as_ref().unwrap().addr, &white_whale_std::pool_network::pair::QueryMsg::Config {}).unwrap();
            (c.feature_toggle.withdrawals_enabled, c.feature_toggle.deposits_enabled, c.feature_toggle.swaps_enabled)
        };
        cx.count("case:combined_update");
        cases.push(json!({"pool": pw.kind, "liquidity": pw.liquidity, "toggles(w,d,s)": [t.0, t.1, t.2], "path": "combined update (switches + fees + collector + ramp)", "ok": r.is_ok()}));
        cx.check("combined_update.stores_the_switches", stored == t, || format!("{} pool: update with switches {:?} plus other fields stored {:?}", pw.kind, t, stored));
        let toggled = w.snapshot();
        for (p, op) in paths.iter() {
            let enabled = match op {
                Op::Withdraw => t.0,
                Op::Deposit => t.1,
                Op::Swap => t.2,
            };
            if enabled {
                continue;
            }
            w.restore(&toggled);
            let r = exec_pool_path(&mut w, pw, p);
            cx.check("disabled.every_entry_path_rejected", r.is_err(), || format!("{} pool (liquidity {}) switches {:?} set in a combined update: {} succeeded although its operation is disabled", pw.kind, pw.liquidity, t, p));
        }
    }
    // an update message that spells out only ONE of the three switches (raw JSON through the factory, as a front-end or a
    // script would send it): it is either refused and nothing changes, or it changes exactly the switch it names; a
    // switch that was paused and is not mentioned must never come back on
    let read = |w: &World| -> (bool, bool, bool) {
        if let Some(tr) = &pw.trio {
            let c: white_whale_std::pool_network::trio::Config = w.query(&tr.addr, &white_whale_std::pool_network::trio::QueryMsg::Config {}).unwrap();
            (c.feature_toggle.withdrawals_enabled, c.feature_toggle.deposits_enabled, c.feature_toggle.swaps_enabled)
        } else {
            let c: white_whale_std::pool_network::pair::Config = w.query(&pw.p1.as_ref().unwrap().addr, &white_whale_std::pool_network::pair::QueryMsg::Config {}).unwrap();
            (c.feature_toggle.withdrawals_enabled, c.feature_toggle.deposits_enabled, c.feature_toggle.swaps_enabled)
        }
    };
    for t in toggles_all() {
        w.restore(&pw.snap);
        set_pool_toggles(&mut w, pw, t).expect("toggle update");
        let base = w.snapshot();
        for (which, name) in ["withdrawals_enabled", "deposits_enabled", "swaps_enabled"].iter().enumerate() {
            for val in [false, true] {
                w.restore(&base);
                let raw = if let Some(tr) = &pw.trio {
                    format!(r#"{{"update_trio_config":{{"trio_addr":"{}","feature_toggle":{{"{}":{}}}}}}}"#, tr.addr, name, val)
                } else {
                    format!(r#"{{"update_pair_config":{{"pair_addr":"{}","feature_toggle":{{"{}":{}}}}}}}"#, pw.p1.as_ref().unwrap().addr, name, val)
                };
                let r = w.exec_raw(OWNER, &pw.hub.factory, cosmwasm_std::Binary::from(raw.clone().into_bytes()), &[]);
                let mut want = t;
                if r.is_ok() {
                    match which {
                        0 => want.0 = val,
                        1 => want.1 = val,
                        _ => want.2 = val,
                    }
                }
                cx.count(if r.is_ok() { "case:partial_toggle_message:accepted" } else { "case:partial_toggle_message:refused" });
                cx.check("partial_update.changes_exactly_the_named_switch", read(&w) == want, || format!("{} pool with switches (w,d,s) {:?}: the message {} was {} and left the switches at {:?}, expected {:?}", pw.kind, t, raw, if r.is_ok() { "accepted" } else { "refused" }, read(&w), want));
            }
        }
    }
    // code upgrade through the factory: a pair whose storage has the v1.1.0 layout (config without burn fee, cw2
    // version 1.1.0), resp. a three-asset pool stored under an older version, must keep its switches
    for t in toggles_all() {
        w.restore(&pw.snap);
        set_pool_toggles(&mut w, pw, t).expect("toggle update");
        let r = if let Some(tr) = &pw.trio {
            w.raw_set(&tr.addr, b"contract_info", br#"{"contract":"white_whale-stableswap-3pool","version":"1.0.0"}"#);
            w.exec(OWNER, &pw.hub.factory, &white_whale_std::pool_network::factory::ExecuteMsg::MigrateTrio { contract: tr.addr.clone(), code_id: Some(w.codes.trio) }, &[])
        } else {
            let p1 = pw.p1.as_ref().unwrap();
            let c: white_whale_std::pool_network::pair::Config = w.query(&p1.addr, &white_whale_std::pool_network::pair::QueryMsg::Config {}).unwrap();
            let old_cfg = json!({"owner": c.owner, "fee_collector_addr": c.fee_collector_addr, "pool_fees": {"protocol_fee": c.pool_fees.protocol_fee, "swap_fee": c.pool_fees.swap_fee}, "feature_toggle": c.feature_toggle});
            w.raw_set(&p1.addr, b"config", serde_json::to_vec(&old_cfg).unwrap().as_slice());
            w.raw_set(&p1.addr, b"contract_info", br#"{"contract":"white_whale-pool","version":"1.1.0"}"#);
            w.exec(OWNER, &pw.hub.factory, &white_whale_std::pool_network::factory::ExecuteMsg::MigratePair { contract: p1.addr.clone(), code_id: Some(w.codes.pair) }, &[])
        };
        cx.count("case:migration");
        cases.push(json!({"pool": pw.kind, "liquidity": pw.liquidity, "toggles(w,d,s)": [t.0, t.1, t.2], "path": "migrate from an older storage version", "ok": r.is_ok()}));
        cx.check("migration.accepted", r.is_ok(), || format!("migrating an older {} pool failed: {:?}", pw.kind, r.as_ref().err().map(|e| e.msg().to_string())));
        if r.is_ok() {
            cx.count("case:migration_ok");
            let stored = if let Some(tr) = &pw.trio {
                let c: white_whale_std::pool_network::trio::Config = w.query(&tr.addr, &white_whale_std::pool_network::trio::QueryMsg::Config {}).unwrap();
                (c.feature_toggle.withdrawals_enabled, c.feature_toggle.deposits_enabled, c.feature_toggle.swaps_enabled)
            } else {
                let c: white_whale_std::pool_network::pair::Config = w.query(&pw.p1.as_ref().unwrap().addr, &white_whale_std::pool_network::pair::QueryMsg::Config {}).unwrap();
                (c.feature_toggle.withdrawals_enabled, c.feature_toggle.deposits_enabled, c.feature_toggle.swaps_enabled)
            };
            cx.check("migration.keeps_the_switches", stored == t, || format!("{} pool switches {:?} (withdraw, deposit, swap) became {:?} by migrating", pw.kind, t, stored));
            let migrated = w.snapshot();
            for (p, op) in paths.iter() {
                let enabled = match op {
                    Op::Withdraw => t.0,
                    Op::Deposit => t.1,
                    Op::Swap => t.2,
                };
                if enabled {
                    continue;
                }
                w.restore(&migrated);
                let r = exec_pool_path(&mut w, pw, p);
                cx.check("disabled.every_entry_path_rejected", r.is_err(), || format!("{} pool switches {:?} after migration: {} succeeded although its operation is disabled", pw.kind, t, p));
            }
        }
    }
    // disable everything, then re-enable: configuration and behaviour are restored
    w.restore(&pw.snap);
    let cfg0 = w.dump(pw.trio.as_ref().map(|t| t.addr.as_str()).unwrap_or_else(|| pw.p1.as_ref().unwrap().addr.as_str()));
    set_pool_toggles(&mut w, pw, (false, false, false)).unwrap();
    set_pool_toggles(&mut w, pw, (true, true, true)).unwrap();
    let cfg1 = w.dump(pw.trio.as_ref().map(|t| t.addr.as_str()).unwrap_or_else(|| pw.p1.as_ref().unwrap().addr.as_str()));
    cx.check("reenable.restores_configuration", cfg0 == cfg1, || "contract storage differs after disable->enable".to_string());
    let re = w.snapshot();
    for (pi, (p, _)) in paths.iter().enumerate() {
        w.restore(&re);
        let b0 = pool_observe(&w, pw);
        let r = exec_pool_path(&mut w, pw, p);
        let b1 = pool_observe(&w, pw);
        let deltas: Vec<i128> = b0.iter().zip(b1.iter()).map(|(x, y)| *y as i128 - *x as i128).collect();
        cx.check("reenable.restores_behaviour", r.is_ok() == control[pi].0 && deltas == control[pi].1, || format!("{}: {} behaves differently after disable->enable", pw.kind, p));
    }
}

// ------------------------------------------------------------------ vault

fn set_vault_toggles(w: &mut World, h: &VH, t: (bool, bool, bool)) -> TxResult {
    // (flash_loan, deposit, withdraw)
    w.exec(
        OWNER,
        &h.factory,
        &white_whale_std::vault_network::vault_factory::ExecuteMsg::UpdateVaultConfig {
            vault_addr: h.vault.clone(),
            params: white_whale_std::vault_network::vault::UpdateConfigParams { flash_loan_enabled: Some(t.0), deposit_enabled: Some(t.1), withdraw_enabled: Some(t.2), new_owner: None, new_vault_fees: None, new_fee_collector_addr: None },
        },
        &[],
    )
}

fn vault_paths() -> Vec<(&'static str, usize)> {
    // (path, index into (flash_loan, deposit, withdraw))
    // the two callback paths: a contract takes a flash loan and sends the deposit / the withdrawal from inside its
    // callback (it then repays exactly); paused is paused whatever else the vault is doing at that moment
    vec![
        ("deposit_direct", 1),
        ("withdraw_send_hook", 2),
        ("withdraw_direct_msg", 2),
        ("flash_loan_direct", 0),
        ("flash_loan_via_vault_router", 0),
        ("deposit_from_inside_a_loan_callback", 1),
        ("withdraw_from_inside_a_loan_callback", 2),
    ]
}

fn exec_vault_path(w: &mut World, h: &VH, path: &str) -> TxResult {
    match path {
        "deposit_direct" => vault_deposit(w, h, BOB, 1_000_000),
        "withdraw_send_hook" => vault_withdraw(w, h, ALICE, 1_000_000),
        "withdraw_direct_msg" => w.exec(ALICE, &h.vault, &white_whale_std::vault_network::vault::ExecuteMsg::Withdraw {}, &[]),
        "flash_loan_direct" => crate::scn_vault::direct_loan(w, h, &h.root.fees, 100_000, &[Step::Repay(RepayKind::Exact)]),
        "deposit_from_inside_a_loan_callback" => crate::scn_vault::direct_loan(w, h, &h.root.fees, 100_000, &[Step::Deposit(1000), Step::Repay(RepayKind::Exact)]),
        "withdraw_from_inside_a_loan_callback" => crate::scn_vault::direct_loan(w, h, &h.root.fees, 100_000, &[Step::WithdrawShares(1000), Step::Repay(RepayKind::Double)]), // (the generous repayment also covers what the withdrawal took out)
        _ => {
            let amount = 100_000u128;
            let f = &h.root.fees;
            let fees = fee_of(f.protocol, amount) + fee_of(f.swap, amount) + fee_of(f.burn, amount);
            let inner: Vec<CosmosMsg> = match &h.asset {
                AssetInfo::NativeToken { denom } => vec![cosmwasm_std::BankMsg::Send { to_address: h.router.clone(), amount: vec![Coin::new(fees, denom)] }.into()],
                AssetInfo::Token { contract_addr } => vec![WasmMsg::Execute { contract_addr: contract_addr.clone(), msg: to_json_binary(&cw20::Cw20ExecuteMsg::Transfer { recipient: h.router.clone(), amount: Uint128::new(fees) }).unwrap(), funds: vec![] }.into()],
            };
            let topup: CosmosMsg = WasmMsg::Execute { contract_addr: h.adversary.clone(), msg: to_json_binary(&AdvMsg::Forward { msgs: inner }).unwrap(), funds: vec![] }.into();
            w.exec(MALLORY, &h.router, &white_whale_std::vault_network::vault_router::ExecuteMsg::FlashLoan { assets: vec![asset(&h.asset, amount)], msgs: vec![topup] }, &[])
        }
    }
}

fn vault_observe(w: &World, h: &VH) -> Vec<u128> {
    let holders = [ALICE, BOB, MALLORY, h.vault.as_str(), h.router.as_str(), h.adversary.as_str(), h.collector.as_str()];
    let mut v = vec![];
    for x in holders {
        v.push(info_balance(w, &h.asset, x));
        v.push(w.cw20_balance(&h.lp, x));
    }
    v
}

fn check_vault(cw20: bool, liquidity: bool, cx: &mut Cx, cases: &mut Vec<Value>) {
    let mut w = World::new();
    let root = VaultRoot { label: "c17".into(), cw20, fees: FEES, first: 0, pre_loan: false };
    let h = deploy_vault(&root, &mut w);
    let cfg: white_whale_std::vault_network::vault::Config = w.query(&h.vault, &white_whale_std::vault_network::vault::QueryMsg::Config {}).unwrap();
    cx.check("fresh.everything_enabled", cfg.deposit_enabled && cfg.withdraw_enabled && cfg.flash_loan_enabled, || "vault does not start with all operations enabled".to_string());
    if liquidity {
        vault_deposit(&mut w, &h, ALICE, 1_000_000_000).unwrap();
        // the borrower contract holds a few shares, so that a withdrawal sent from its loan callback has something to redeem
        w.exec(ALICE, &h.lp, &cw20::Cw20ExecuteMsg::Transfer { recipient: h.adversary.clone(), amount: Uint128::new(10_000) }, &[]).unwrap();
    }
    let _ = compile(&h, &FEES, 0, &[]);
    let base = w.snapshot();
    let paths = vault_paths();
    let mut control = vec![];
    for (p, _) in &paths {
        w.restore(&base);
        let b0 = vault_observe(&w, &h);
        let r = exec_vault_path(&mut w, &h, p);
        let b1 = vault_observe(&w, &h);
        control.push((r.is_ok(), b0.iter().zip(b1.iter()).map(|(x, y)| *y as i128 - *x as i128).collect::<Vec<_>>()));
    }
    for t in toggles_all() {
        w.restore(&base);
        set_vault_toggles(&mut w, &h, t).expect("vault toggles");
        let toggled = w.snapshot();
        for (pi, (p, ti)) in paths.iter().enumerate() {
            w.restore(&toggled);
            // a path that runs inside a loan callback invokes two operations: the flash loan and the deposit / withdrawal
            let enabled = [t.0, t.1, t.2][*ti] && (!p.ends_with("_from_inside_a_loan_callback") || t.0);
            let before = w.kv_clone();
            let b0 = vault_observe(&w, &h);
            let r = exec_vault_path(&mut w, &h, p);
            let b1 = vault_observe(&w, &h);
            let deltas: Vec<i128> = b0.iter().zip(b1.iter()).map(|(x, y)| *y as i128 - *x as i128).collect();
            cases.push(json!({"vault_cw20": cw20, "liquidity": liquidity, "toggles(loan,deposit,withdraw)": [t.0, t.1, t.2], "path": p, "ok": r.is_ok()}));
            cx.count("case");
            if !enabled {
                cx.count("case:disabled");
                cx.check("disabled.every_entry_path_rejected", r.is_err(), || format!("vault (cw20 {}, liquidity {}) toggles {:?}: {} succeeded although disabled", cw20, liquidity, t, p));
                cx.check("disabled.moves_nothing", kv_equal(&before, &w.kv_clone()), || format!("vault toggles {:?}: {} changed state although disabled", t, p));
            } else {
                cx.count("case:enabled");
                if control[pi].0 {
                    cx.count("case:enabled_and_control_succeeds");
                }
                cx.check("enabled.behaves_as_in_all_enabled_control", r.is_ok() == control[pi].0 && deltas == control[pi].1, || format!("vault (cw20 {}, liquidity {}) toggles {:?}: {} ok={} control ok={}", cw20, liquidity, t, p, r.is_ok(), control[pi].0));
            }
        }
    }
    // partial updates: the vault's UpdateConfig takes each switch as an Option; an update that names one
    // switch (or none, e.g. a fee change) must leave the other switches exactly as they were
    let read = |w: &World| -> (bool, bool, bool) {
        let c: white_whale_std::vault_network::vault::Config = w.query(&h.vault, &white_whale_std::vault_network::vault::QueryMsg::Config {}).unwrap();
        (c.flash_loan_enabled, c.deposit_enabled, c.withdraw_enabled)
    };
    for t in toggles_all() {
        w.restore(&base);
        set_vault_toggles(&mut w, &h, t).expect("vault toggles");
        let toggled = w.snapshot();
        for which in 0..4usize {
            for val in [true, false] {
                if which == 3 && !val {
                    continue;
                }
                w.restore(&toggled);
                let params = white_whale_std::vault_network::vault::UpdateConfigParams {
                    flash_loan_enabled: if which == 0 { Some(val) } else { None },
                    deposit_enabled: if which == 1 { Some(val) } else { None },
                    withdraw_enabled: if which == 2 { Some(val) } else { None },
                    new_owner: None,
                    new_vault_fees: if which == 3 { Some(Fee3::new(ONE18 / 100, 0, 0).vault()) } else { None },
                    new_fee_collector_addr: None,
                };
                w.exec(OWNER, &h.factory, &white_whale_std::vault_network::vault_factory::ExecuteMsg::UpdateVaultConfig { vault_addr: h.vault.clone(), params }, &[]).expect("partial update");
                let mut want = t;
                match which {
                    0 => want.0 = val,
                    1 => want.1 = val,
                    2 => want.2 = val,
                    _ => {}
                }
                cx.count("case:partial_update");
                cases.push(json!({"vault_cw20": cw20, "toggles(loan,deposit,withdraw)": [t.0, t.1, t.2], "partial_update_of": (["flash_loan", "deposit", "withdraw", "fees only"])[which], "value": val}));
                cx.check("partial_update.changes_exactly_the_named_switch", read(&w) == want, || format!("vault toggles {:?}: update naming only switch #{} = {} left the switches at {:?}, expected {:?}", t, which, val, read(&w), want));
            }
        }
    }
    // code upgrade: a vault whose storage has the v1.1.3 layout (config without burn fee / lp_asset, cw2 version 1.1.3)
    // is migrated to the current code through the factory; the switches must come out exactly as the operator left them
    for t in toggles_all() {
        w.restore(&base);
        set_vault_toggles(&mut w, &h, t).expect("vault toggles");
        let c: white_whale_std::vault_network::vault::Config = w.query(&h.vault, &white_whale_std::vault_network::vault::QueryMsg::Config {}).unwrap();
        let old_cfg = json!({
            "owner": c.owner, "asset_info": c.asset_info, "flash_loan_enabled": c.flash_loan_enabled, "deposit_enabled": c.deposit_enabled,
            "withdraw_enabled": c.withdraw_enabled, "liquidity_token": h.lp, "fee_collector_addr": c.fee_collector_addr,
            "fees": {"protocol_fee": c.fees.protocol_fee, "flash_loan_fee": c.fees.flash_loan_fee}
        });
        w.raw_set(&h.vault, b"config", serde_json::to_vec(&old_cfg).unwrap().as_slice());
        w.raw_set(&h.vault, b"contract_info", br#"{"contract":"white_whale-vault","version":"1.1.3"}"#);
        let r = w.exec(OWNER, &h.factory, &white_whale_std::vault_network::vault_factory::ExecuteMsg::MigrateVaults { vault_addr: Some(h.vault.clone()), vault_code_id: w.codes.vault }, &[]);
        cx.count("case:migration");
        cases.push(json!({"vault_cw20": cw20, "liquidity": liquidity, "toggles(loan,deposit,withdraw)": [t.0, t.1, t.2], "path": "migrate from the v1.1.3 storage layout", "ok": r.is_ok()}));
        cx.check("migration.accepted", r.is_ok(), || format!("migrating a v1.1.3 vault failed: {:?}", r.as_ref().err().map(|e| e.msg().to_string())));
        if r.is_ok() {
            cx.count("case:migration_ok");
            cx.check("migration.keeps_the_switches", read(&w) == t, || format!("vault switches {:?} (loan, deposit, withdraw) became {:?} by migrating from v1.1.3", t, read(&w)));
            let migrated = w.snapshot();
            for (p, ti) in paths.iter() {
                if [t.0, t.1, t.2][*ti] {
                    continue;
                }
                w.restore(&migrated);
                let r = exec_vault_path(&mut w, &h, p);
                cx.check("disabled.every_entry_path_rejected", r.is_err(), || format!("vault (cw20 {}) switches {:?} after migration: {} succeeded although disabled", cw20, t, p));
            }
        }
    }
    w.restore(&base);
    let d0 = w.dump(&h.vault);
    set_vault_toggles(&mut w, &h, (false, false, false)).unwrap();
    set_vault_toggles(&mut w, &h, (true, true, true)).unwrap();
    cx.check("reenable.restores_configuration", d0 == w.dump(&h.vault), || "vault storage differs after disable->enable".to_string());
}

pub fn run(tier: &str, seed: u64) -> i32 {
    let mut ev = Evidence::new("C17", tier, seed);
    ev.assumptions = vec![
        "toggles are set through the factory (the owner of pools and vaults); default cargo features: the direct WithdrawLiquidity{}/Withdraw{} messages only serve token-factory LP tokens and are rejected in every state (control included)".into(),
        "the fee collector's AggregateFees is not an entry path of a swap (it skips hops whose simulation fails)".into(),
    ];
    let mut cx = Cx::default();
    let mut cases = vec![];
    for kind in ["cp", "stable", "trio"] {
        for liq in [true, false] {
            let pw = build_pool(kind, liq);
            check_pool(&pw, &mut cx, &mut cases);
        }
    }
    for cw20 in [false, true] {
        for liq in [true, false] {
            check_vault(cw20, liq, &mut cx, &mut cases);
        }
    }
    let n = cases.len() as u64;
    let samples: Vec<Value> = vec![cases[0].clone(), cases[cases.len() / 2].clone(), cases[cases.len() - 1].clone()];
    ev.add_grid("toggle-matrix", n, n, "pool type/vault x 2^3 toggles x liquidity x entry paths, each compared with the all-enabled control", samples, &cx.counters);
    ev.validated = cx.counters.get("case:enabled_and_control_succeeds").cloned().unwrap_or(0);
    for (i, v) in cx.violations.iter().enumerate() {
        if i >= 3 {
            break;
        }
        let file = format!("{}/C17-toggle_matrix-{}.json", crate::engine::replay_dir(), i);
        std::fs::write(&file, serde_json::to_string_pretty(&json!({"property": "C17", "kind": "matrix", "oracle": v.oracle, "detail": v.detail})).unwrap()).unwrap();
        ev.violation(file, format!("{} {}", v.oracle, v.detail));
    }
    if ev.violations.is_empty() {
        ev.require_counter("case:disabled", 200);
        ev.require_counter("case:enabled_and_control_succeeds", 100);
        ev.require_counter("case:migration_ok", 80);
        ev.require_counter("case:combined_update", 48);
    }
    ev.finish()
}

pub fn replay(doc: &Value) -> bool {
    // the matrix is small: re-run it completely and report whether the recorded clause fails again
    println!("re-running the complete toggle matrix");
    let mut cx = Cx::default();
    let mut cases = vec![];
    for kind in ["cp", "stable", "trio"] {
        for liq in [true, false] {
            check_pool(&build_pool(kind, liq), &mut cx, &mut cases);
        }
    }
    for cw20 in [false, true] {
        for liq in [true, false] {
            check_vault(cw20, liq, &mut cx, &mut cases);
        }
    }
    let want = doc["oracle"].as_str().unwrap_or("");
    let mut rep = false;
    for v in &cx.violations {
        println!("  !! {}: {}", v.oracle, v.detail);
        if v.oracle == want {
            rep = true;
        }
    }
    println!("reproduced={rep}");
    rep
}
