//! C12 — incentive flows are fully funded and fully returned.
use serde_json::Value;

use crate::engine::{default_cfg, explore, replay_trace, Evidence};
use crate::scn_incentive::{default_users, FeeKind, IncRoot, IncScn};

pub fn scenario(tier: &str) -> IncScn {
    let mut roots = vec![];
    // (all five fee/reward combinations in both tiers: the overpaid-native-fee defect fixed in 7aebf83 only shows with a
    // native fee and a cw20 reward)
    let kinds: Vec<FeeKind> = vec![FeeKind::NativeSame, FeeKind::NativeDiff, FeeKind::Cw20Same, FeeKind::Cw20Diff, FeeKind::NativeFeeCw20Reward];
    for k in kinds {
        roots.push(IncRoot { label: format!("{:?}/fresh", k), lp_native: true, fee_kind: k, prefix: 1, standing_allowance: false });
        if tier != "quick" || matches!(k, FeeKind::NativeDiff | FeeKind::Cw20Same) {
            roots.push(IncRoot { label: format!("{:?}/flow+epoch", k), lp_native: true, fee_kind: k, prefix: 2, standing_allowance: false });
        }
    }
    // amounts of 18-decimals assets: every flow, expansion and position exceeds 2^64 base units
    roots.push(IncRoot { label: "NativeDiff/flow+epoch @1e18-units".into(), lp_native: true, fee_kind: FeeKind::NativeDiff, prefix: 2, standing_allowance: false });
    if tier != "quick" {
        roots.push(IncRoot { label: "Cw20Same/flow+epoch @1e18-units".into(), lp_native: true, fee_kind: FeeKind::Cw20Same, prefix: 2, standing_allowance: false });
    }
    IncScn { property: "C12".into(), roots, users: default_users(), reduced: tier == "quick" }
}

/// long-history mode: two stakers with different claim histories, composite epoch rounds, flows that may
/// start in the past; depth 6/7 spans whole flow lifetimes
pub fn long_scenario(tier: &str) -> IncScn {
    let mut roots = vec![IncRoot { label: "NativeDiff/two-stakers-epoch6".into(), lp_native: true, fee_kind: FeeKind::NativeDiff, prefix: 5, standing_allowance: false }];
    if tier != "quick" {
        roots.push(IncRoot { label: "Cw20Same/two-stakers-epoch6".into(), lp_native: true, fee_kind: FeeKind::Cw20Same, prefix: 5, standing_allowance: false });
    }
    IncScn { property: "C12".into(), roots, users: default_users(), reduced: true }
}

pub fn run(tier: &str, seed: u64) -> i32 {
    let mut ev = Evidence::new("C12", tier, seed);
    ev.assumptions = vec![
        "funded amount of a flow = reward tokens the incentive contract actually received for it (balance deltas), never the declared amount".into(),
        "flows end 3-4 epochs after opening so that emission and expiry are within reach of the depth bound".into(),
    ];
    let depth = if tier == "quick" { 4 } else { 6 };
    let cfg = default_cfg("C12", tier, seed, depth);
    ev.add_report(explore(&scenario(tier), &cfg));
    if ev.violations.is_empty() {
        let cfg = default_cfg("C12", tier, seed, if tier == "quick" { 6 } else { 7 });
        ev.add_report(explore(&long_scenario(tier), &cfg));
    }
    if ev.violations.is_empty() {
        for c in ["openflow:start_in_the_past", "openflow:ok", "openflow:rejected", "expandflow:ok", "closeflow:ok", "closeflow:stranger_rejected", "claim:paid>0"] {
            ev.require_counter(c, 1);
        }
    }
    ev.finish()
}

pub fn replay(doc: &Value) -> bool {
    let tier = doc["tier"].as_str().unwrap_or("quick");
    if doc["root_label"].as_str().unwrap_or("").contains("two-stakers") {
        return replay_trace(&long_scenario(tier), doc);
    }
    replay_trace(&scenario(tier), doc)
}
