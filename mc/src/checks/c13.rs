//! C13 — incentive rewards: weights add up; claims are bounded, single and as quoted.
use std::panic::{catch_unwind, AssertUnwindSafe};

use cosmwasm_std::Uint128;
use serde_json::{json, Value};

use crate::engine::{default_cfg, explore, replay_trace, Cx, Evidence};
use crate::grid::par_index;
use crate::scn_incentive::{default_users, FeeKind, IncRoot, IncScn};

pub fn scenario(tier: &str) -> IncScn {
    let mut roots = vec![
        IncRoot { label: "native-lp/fresh".into(), lp_native: true, fee_kind: FeeKind::NativeDiff, prefix: 0, standing_allowance: false },
        IncRoot { label: "native-lp/positions+flow+epoch".into(), lp_native: true, fee_kind: FeeKind::NativeDiff, prefix: 2, standing_allowance: false },
    ];
    roots.push(IncRoot { label: "native-lp/flow-ended-after-6-epochs".into(), lp_native: true, fee_kind: FeeKind::NativeDiff, prefix: 3, standing_allowance: false });
    roots.push(IncRoot { label: "native-lp/two-flows-55-unclaimed-epochs".into(), lp_native: true, fee_kind: FeeKind::NativeDiff, prefix: 6, standing_allowance: false });
    // 99 epochs without a claim: one more epoch puts the claim exactly on the 100-epoch cap
    roots.push(IncRoot { label: "native-lp/99-unclaimed-epochs".into(), lp_native: true, fee_kind: FeeKind::NativeDiff, prefix: 4, standing_allowance: false });
    // a flow older than 20 epochs whose stakers last claimed more than 20 epochs ago
    roots.push(IncRoot { label: "native-lp/60-epoch-flow-claimed-22-epochs-ago".into(), lp_native: true, fee_kind: FeeKind::NativeDiff, prefix: 7, standing_allowance: false });
    // amounts of 18-decimals assets (the property quantifies over amounts up to 2^100): every position and flow exceeds 2^64
    roots.push(IncRoot { label: "native-lp/positions+flow+epoch @1e18-units".into(), lp_native: true, fee_kind: FeeKind::NativeDiff, prefix: 2, standing_allowance: false });
    if tier != "quick" {
        roots.push(IncRoot { label: "native-lp/positions".into(), lp_native: true, fee_kind: FeeKind::Cw20Diff, prefix: 1, standing_allowance: false });
    }
    IncScn { property: "C13".into(), roots, users: default_users(), reduced: tier == "quick" }
}

fn weight(d: u64, a: u128) -> Result<u128, String> {
    match catch_unwind(AssertUnwindSafe(|| incentive::verif_hooks::calculate_weight(d, Uint128::new(a)))) {
        Ok(Ok(w)) => Ok(w.u128()),
        Ok(Err(e)) => Err(e.to_string()),
        Err(_) => Err("panic".into()),
    }
}

/// documented multiplier: the quadratic through (86400,1), (15778463,5), (31556926,16)
fn multiplier(d: u64) -> f64 {
    let xs = [86_400f64, 15_778_463f64, 31_556_926f64];
    let ys = [1f64, 5f64, 16f64];
    let x = d as f64;
    let mut s = 0.0;
    for i in 0..3 {
        let mut t = ys[i];
        for j in 0..3 {
            if i != j {
                t *= (x - xs[j]) / (xs[i] - xs[j]);
            }
        }
        s += t;
    }
    s
}

pub fn durations() -> Vec<u64> {
    vec![86_400, 86_401, 100_000, 1_000_000, 7_889_231, 15_778_463, 20_000_000, 31_556_925, 31_556_926]
}
pub fn amounts(full: bool) -> Vec<u128> {
    let mut v: Vec<u128> = (1..=200).collect();
    for k in 3..=30u32 {
        let p = 10u128.pow(k);
        v.push(p - 1);
        v.push(p);
        v.push(p + 1);
    }
    v.push(1u128 << 100);
    if full {
        for k in (8..100).step_by(4) {
            v.push(1u128 << k);
            v.push((1u128 << k) + 1);
        }
    }
    v.sort();
    v.dedup();
    v
}

fn formula_grid(ev: &mut Evidence, tier: &str) {
    let ds = durations();
    let am = amounts(tier != "quick");
    let n = ds.len() * am.len();
    let res = par_index(n, 3, |i, cx: &mut Cx| {
        let d = ds[i % ds.len()];
        let a = am[i / ds.len()];
        let w = match weight(d, a) {
            Ok(w) => w,
            Err(e) => {
                cx.check("weight.total_on_allowed_range", false, || format!("calculate_weight({}, {}) failed: {}", d, a, e));
                return;
            }
        };
        cx.count("weight:evaluated");
        cx.check("weight.at_least_amount", w >= a, || format!("weight({}, {}) = {} < amount", d, a, w));
        // documented curve (within 1 unit + 1e-6 relative; the contract's constants approximate the quadratic)
        let want = multiplier(d) * a as f64;
        let tol = 1.5 + want.abs() * 1e-6;
        let want_clamped = want.max(a as f64);
        cx.check("weight.matches_documented_quadratic", (w as f64 - want_clamped).abs() <= tol, || format!("weight({}, {}) = {} but the quadratic through (1d,1),(6m,5),(1y,16) gives {}", d, a, w, want_clamped));
        // monotone in amount (next amount in the grid) and duration (next duration)
        if i / ds.len() + 1 < am.len() {
            let a2 = am[i / ds.len() + 1];
            if let Ok(w2) = weight(d, a2) {
                cx.check("weight.monotone_in_amount", w2 >= w, || format!("weight({}, {}) = {} > weight({}, {}) = {}", d, a, w, d, a2, w2));
            }
        }
        if i % ds.len() + 1 < ds.len() {
            let d2 = ds[i % ds.len() + 1];
            if let Ok(w2) = weight(d2, a) {
                cx.check("weight.monotone_in_duration", w2 >= w, || format!("weight({}, {}) = {} > weight({}, {}) = {}", d, a, w, d2, a, w2));
            }
        }
    });
    ev.add_grid_result("calculate_weight-grid", "durations {1d,1d+1,...,1y-1,1y} x amounts {1..200, 10^k+-1, 2^k}", res, &|i| json!({"duration": ds[i % ds.len()], "amount": am[i / ds.len()].to_string()}), &[0, n / 2, n - 1]);
    // outside the allowed range the function must refuse
    let mut cx = Cx::default();
    for d in [0u64, 86_399, 31_556_927, u64::MAX] {
        cx.check("weight.rejects_outside_range", weight(d, 1000).is_err(), || format!("calculate_weight({}, 1000) accepted", d));
    }
    for v in cx.violations {
        ev.violation("-".into(), format!("{} {}", v.oracle, v.detail));
    }
}

pub fn run(tier: &str, seed: u64) -> i32 {
    let mut ev = Evidence::new("C13", tier, seed);
    ev.assumptions = vec![
        "epochs come from the repository's fee-distributor-mock; the snapshot call is an explicit, permissionless action that the explorer places anywhere".into(),
        "position amounts {1,2,3,1000}, three durations, flows of 11000 over 4 epochs with expansions of 5000; histories bounded by the stated depth (20-epoch histories are not reached)".into(),
    ];
    formula_grid(&mut ev, tier);
    // every root of the tier to depth 5; thorough adds depth 6 with the reduced alphabet from the three short-history roots (the long-history
    // roots at depth 6 exceed the time cap: 21 M states in 1500 s without finishing the level)
    let cfg = default_cfg("C13", tier, seed, 5);
    if ev.violations.is_empty() {
        let mut main = scenario(tier);
        if tier == "quick" {
            // (quick tier: the two roots added last - 18-decimals units, the 60-epoch flow - go to depth 4 in a run of their own)
            main.roots.retain(|r| !(r.prefix == 7 || r.label.contains("@1e18-units")));
        }
        ev.add_report(explore(&main, &cfg));
    }
    if tier == "quick" && ev.violations.is_empty() {
        let mut extra = scenario(tier);
        extra.roots.retain(|r| r.prefix == 7 || r.label.contains("@1e18-units"));
        let cfg = default_cfg("C13", tier, seed, 4);
        ev.add_report(explore(&extra, &cfg));
    }
    if tier != "quick" && ev.violations.is_empty() {
        let mut deep = scenario(tier);
        deep.roots.retain(|r| r.prefix <= 2);
        deep.reduced = true;
        let cfg = default_cfg("C13", tier, seed, 6);
        ev.add_report(explore(&deep, &cfg));
    }
    if ev.violations.is_empty() {
        for c in ["open:ok", "expand:ok", "close:ok", "claim:paid>0", "shares:evaluated", "snapshot:ok", "tick"] {
            ev.require_counter(c, 1);
        }
    }
    ev.finish()
}

pub fn replay(doc: &Value) -> bool {
    if doc["kind"] == "point" {
        let d = doc["point"]["duration"].as_u64().unwrap();
        let a: u128 = doc["point"]["amount"].as_str().unwrap().parse().unwrap();
        println!("calculate_weight({}, {}) = {:?}; documented multiplier {}", d, a, weight(d, a), multiplier(d));
        println!("reproduced=true");
        return true;
    }
    let tier = doc["tier"].as_str().unwrap_or("quick");
    replay_trace(&scenario(tier), doc)
}
