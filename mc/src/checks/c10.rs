//! C10 — fee pipeline: owed protocol fees reach the epoch, minus only the take rate.
//! Exhaustive enumeration of configurations (fee state of 2 pools x 2 vaults, take rate,
//! routes, faults) each followed by one real NewEpoch transaction on a fully deployed hub.

use cosmwasm_std::{BankMsg, Coin, Decimal, Uint128, Uint64};
use serde_json::{json, Value};
use white_whale_std::fee_collector::{ExecuteMsg as CollExec, QueryMsg as CollQuery};
use white_whale_std::fee_distributor::{Epoch, ExecuteMsg as DistExec};
use white_whale_std::pool_network::asset::{AssetInfo, PairType};
use white_whale_std::pool_network::router::{ExecuteMsg as RouterExec, SwapOperation, SwapRoute};

use crate::big::b;
use crate::deploy::*;
use crate::engine::{Cx, Evidence};
use crate::grid::par_index_with;
use crate::hub::{deploy_fee_hub, FeeHub, HubOpts};
use crate::scn_dist::epoch_of;
use crate::scn_lair::{BD, DAY_NS};
use crate::scn_pair::loose_belief;
use crate::scn_vault::{direct_loan, vault_deposit, RepayKind, Step, VH, VaultRoot};
use crate::world::{coin, kv_equal, Snapshot, World, GENESIS_TIME_NS};

const UWHALE: &str = "uwhale";
/// an ibc voucher denom as distribution asset: 'ibc/' + 64 hex digits
const IBC_WHALE: &str = "ibc/EDD6F0D66BCD49C1084FB2C35353B4ACD7B9191117CE63671B61320548F7C89D";
const USDC: &str = "uusdc";
const DAO: &str = "dao";
const E1_TOTAL: u128 = 777;

#[derive(Clone)]
pub struct Base {
    /// denom of the distribution asset (uwhale, or an ibc voucher denom)
    whale: String,
    hub: FeeHub,
    pair_a: PairH,
    pair_b: PairH,
    tok_b: String,
    vault_w: VH,
    vault_a: VH,
    snap: Snapshot,
}

fn vault_handle(w: &mut World, hub: &FeeHub, asset: AssetInfo, fees: Fee3) -> VH {
    w.exec(
        OWNER,
        &hub.vault_factory,
        &white_whale_std::vault_network::vault_factory::ExecuteMsg::CreateVault { asset_info: asset.clone(), fees: fees.vault(), token_factory_lp: false },
        &[],
    )
    .expect("create vault");
    let vault: Option<String> = w.query(&hub.vault_factory, &white_whale_std::vault_network::vault_factory::QueryMsg::Vault { asset_info: asset.clone() }).expect("vault");
    let vault = vault.unwrap();
    let cfg: white_whale_std::vault_network::vault::Config = w.query(&vault, &white_whale_std::vault_network::vault::QueryMsg::Config {}).unwrap();
    let lp = match cfg.lp_asset {
        AssetInfo::Token { contract_addr } => contract_addr,
        AssetInfo::NativeToken { denom } => denom,
    };
    let adversary = w.instantiate(w.codes.adversary, OWNER, &cosmwasm_std::Empty {}, &[], "adv", None).unwrap();
    fund(w, &asset, &adversary, 1u128 << 100);
    VH { collector: hub.collector.clone(), factory: hub.vault_factory.clone(), vault, router: String::new(), adversary, lp, asset, root: VaultRoot { label: "c10".into(), cw20: false, fees, first: 0, pre_loan: false } }
}

pub fn build_base() -> Base {
    build_base_with(UWHALE)
}

pub fn build_base_with(whale_denom: &str) -> Base {
    #[allow(non_snake_case)]
    let WHALE = whale_denom;
    let mut w = World::new();
    let genesis = GENESIS_TIME_NS + 1_000_000_000;
    let mut opts = HubOpts::basic(genesis, 1);
    opts.distribution = native(WHALE);
    if !opts.native_decimals.iter().any(|(d, _)| d == WHALE) {
        opts.native_decimals.push((WHALE.to_string(), 6));
    }
    let hub = deploy_fee_hub(&mut w, &opts);
    let tok_b = w.new_cw20("tbb", 6, &[], OWNER);
    let fees = Fee3::new(ONE18 / 100, 0, 0);
    for u in [ALICE, BOB, MALLORY] {
        for d in [WHALE, USDC] {
            w.mint_native(u, 1u128 << 100, d);
        }
        if WHALE != BD[0] {
            // the bonding asset stays uwhale
            w.mint_native(u, 1u128 << 100, BD[0]);
        }
        fund(&mut w, &token(&tok_b), u, 1u128 << 100);
    }
    let ph = PoolHub { collector: hub.collector.clone(), factory: hub.pool_factory.clone() };
    let pair_a = create_pair(&mut w, &ph, [native(USDC), native(WHALE)], fees.pool(), PairType::ConstantProduct).expect("pair A");
    let pair_b = create_pair(&mut w, &ph, [token(&tok_b), native(WHALE)], fees.pool(), PairType::ConstantProduct).expect("pair B");
    let e9 = 1_000_000_000u128;
    let amt = |p: &PairH| -> [u128; 2] { [e9, e9].map(|x| x).into_iter().zip(p.assets.iter()).map(|(x, _)| x).collect::<Vec<_>>().try_into().unwrap() };
    pair_provide(&mut w, &pair_a, ALICE, amt(&pair_a), None, None).expect("liq A");
    pair_provide(&mut w, &pair_b, ALICE, amt(&pair_b), None, None).expect("liq B");
    let vault_w = vault_handle(&mut w, &hub, native(WHALE), fees);
    let vault_a = vault_handle(&mut w, &hub, native(USDC), fees);
    vault_deposit(&mut w, &vault_w, ALICE, 10 * e9).expect("vault W deposit");
    vault_deposit(&mut w, &vault_a, ALICE, 10 * e9).expect("vault A deposit");
    // DAO + bonding + first epoch with a known total that will roll over (grace 1)
    w.exec(
        OWNER,
        &hub.collector,
        &CollExec::UpdateConfig { owner: None, pool_router: None, fee_distributor: None, pool_factory: None, vault_factory: None, take_rate: None, take_rate_dao_address: Some(DAO.to_string()), is_take_rate_active: None },
        &[],
    )
    .expect("dao");
    w.exec(ALICE, &hub.lair, &white_whale_std::whale_lair::ExecuteMsg::Bond { asset: asset(&native(BD[0]), 1000) }, &[coin(1000, BD[0])]).expect("bond");
    w.set_time_ns(genesis);
    w.advance(0, 1);
    w.exec_cosmos(MALLORY, BankMsg::Send { to_address: hub.collector.clone(), amount: vec![coin(E1_TOTAL, WHALE)] }.into()).unwrap();
    w.exec(MALLORY, &hub.distributor, &DistExec::NewEpoch {}, &[]).expect("epoch 1");
    let snap = w.snapshot();
    Base { whale: WHALE.to_string(), hub, pair_a, pair_b, tok_b, vault_w, vault_a, snap }
}

#[derive(Clone, Copy, Debug)]
pub struct Cfg {
    pub pair_a: u8,  // 0 none, 1 small, 2 large both sides, 3 mixed (one side above the threshold, the other 1..=1000)
    pub pair_b: u8,
    pub vault_w: u8,
    pub vault_a: u8,
    pub take: u8,    // 0 inactive(50%), 1 active 0, 2 1e-18, 3 1%, 4 50%, 5 1-1e-18
    pub routes: u8,  // 0 both, 1 none, 2 only A, 3 only B
    pub fault: u8,   // 0 none, 1 pair A swaps disabled, 2 A hop exceeds max spread, 3 B hop exceeds max spread (asset only the pools' aggregation step handles), 4 no fault but 1e21 uwhale in the collector
}

pub fn all_cfgs() -> Vec<Cfg> {
    let mut v = vec![];
    for pair_a in 0..4 {
        for pair_b in 0..4 {
            for vault_w in 0..3 {
                for vault_a in 0..3 {
                    for take in 0..6 {
                        for routes in 0..4 {
                            for fault in 0..5 {
                                v.push(Cfg { pair_a, pair_b, vault_w, vault_a, take, routes, fault });
                            }
                        }
                    }
                }
            }
        }
    }
    v
}

fn cfg_json(c: &Cfg) -> Value {
    json!({"pair_a": c.pair_a, "pair_b": c.pair_b, "vault_w": c.vault_w, "vault_a": c.vault_a, "take": c.take, "routes": c.routes, "fault": c.fault})
}
fn cfg_from(v: &Value) -> Cfg {
    let g = |k: &str| v[k].as_u64().unwrap() as u8;
    Cfg { pair_a: g("pair_a"), pair_b: g("pair_b"), vault_w: g("vault_w"), vault_a: g("vault_a"), take: g("take"), routes: g("routes"), fault: g("fault") }
}

fn take_rate(c: &Cfg) -> (bool, Decimal) {
    match c.take {
        0 => (false, Decimal::percent(50)),
        1 => (true, Decimal::zero()),
        2 => (true, dec(1)),
        3 => (true, Decimal::percent(1)),
        4 => (true, Decimal::percent(50)),
        _ => (true, dec(ONE18 - 1)),
    }
}

fn pair_fee_state(w: &mut World, p: &PairH, level: u8) {
    // asset index 1 is WHALE in both pairs
    match level {
        1 => {
            pair_swap(w, &p.addr, BOB, &p.assets[1], 50_000, loose_belief(), None, None).expect("small fee swap");
        }
        2 => {
            pair_swap(w, &p.addr, BOB, &p.assets[1], 500_000, loose_belief(), None, None).expect("large fee swap");
            pair_swap(w, &p.addr, BOB, &p.assets[0], 300_000, loose_belief(), None, None).expect("large fee swap back");
        }
        3 => {
            pair_swap(w, &p.addr, BOB, &p.assets[1], 500_000, loose_belief(), None, None).expect("mixed: large fee swap");
            pair_swap(w, &p.addr, BOB, &p.assets[0], 50_000, loose_belief(), None, None).expect("mixed: small fee swap back");
        }
        _ => {}
    }
}
fn vault_fee_state(w: &mut World, v: &VH, level: u8) {
    let amt = match level {
        1 => 50_000,
        2 => 500_000,
        _ => return,
    };
    direct_loan(w, v, &v.root.fees, amt, &[Step::Repay(RepayKind::Exact)]).expect("fee loan");
}

struct Obs {
    coll: [u128; 3],
    dao: u128,
    dist: u128,
    pair_bal: [[u128; 2]; 2],
    pair_pending: [[u128; 2]; 2],
    vault_bal: [u128; 2],
    vault_pending: [u128; 2],
}

fn observe(w: &World, bs: &Base) -> Obs {
    #[allow(non_snake_case)]
    let WHALE = bs.whale.as_str();
    let tb = token(&bs.tok_b);
    let assets = [native(WHALE), native(USDC), tb];
    let coll = [info_balance(w, &assets[0], &bs.hub.collector), info_balance(w, &assets[1], &bs.hub.collector), info_balance(w, &assets[2], &bs.hub.collector)];
    let pb = |p: &PairH| [info_balance(w, &p.assets[0], &p.addr), info_balance(w, &p.assets[1], &p.addr)];
    Obs {
        coll,
        dao: w.native_balance(DAO, WHALE),
        dist: w.native_balance(&bs.hub.distributor, WHALE),
        pair_bal: [pb(&bs.pair_a), pb(&bs.pair_b)],
        pair_pending: [pair_fees(w, &bs.pair_a.addr, false).unwrap(), pair_fees(w, &bs.pair_b.addr, false).unwrap()],
        vault_bal: [crate::scn_vault::vault_balance(w, &bs.vault_w), crate::scn_vault::vault_balance(w, &bs.vault_a)],
        vault_pending: [crate::scn_vault::vault_pending(w, &bs.vault_w, false), crate::scn_vault::vault_pending(w, &bs.vault_a, false)],
    }
}

pub fn run_cfg(w: &mut World, bs: &Base, c: &Cfg, cx: &mut Cx) {
    #[allow(non_snake_case)]
    let WHALE = bs.whale.as_str();
    w.restore(&bs.snap);
    let hub = &bs.hub;
    pair_fee_state(w, &bs.pair_a, c.pair_a);
    pair_fee_state(w, &bs.pair_b, c.pair_b);
    vault_fee_state(w, &bs.vault_w, c.vault_w);
    vault_fee_state(w, &bs.vault_a, c.vault_a);
    let (active, rate) = take_rate(c);
    w.exec(
        OWNER,
        &hub.collector,
        &CollExec::UpdateConfig { owner: None, pool_router: None, fee_distributor: None, pool_factory: None, vault_factory: None, take_rate: Some(rate), take_rate_dao_address: None, is_take_rate_active: Some(active) },
        &[],
    )
    .expect("take rate");
    let route = |offer: &AssetInfo| SwapRoute {
        offer_asset_info: offer.clone(),
        ask_asset_info: native(WHALE),
        swap_operations: vec![SwapOperation::TerraSwap { offer_asset_info: offer.clone(), ask_asset_info: native(WHALE) }],
    };
    let mut routes = vec![];
    if c.routes == 0 || c.routes == 2 {
        routes.push(route(&native(USDC)));
    }
    if c.routes == 0 || c.routes == 3 {
        routes.push(route(&token(&bs.tok_b)));
    }
    if !routes.is_empty() {
        w.exec(OWNER, &hub.pool_router, &RouterExec::AddSwapRoutes { swap_routes: routes }, &[]).expect("routes");
    }
    let has_route_a = c.routes == 0 || c.routes == 2;
    let has_route_b = c.routes == 0 || c.routes == 3;
    match c.fault {
        1 => {
            w.exec(
                OWNER,
                &hub.pool_factory,
                &white_whale_std::pool_network::factory::ExecuteMsg::UpdatePairConfig {
                    pair_addr: bs.pair_a.addr.clone(),
                    owner: None,
                    fee_collector_addr: None,
                    pool_fees: None,
                    feature_toggle: Some(white_whale_std::pool_network::pair::FeatureToggle { withdrawals_enabled: true, deposits_enabled: true, swaps_enabled: false }),
                },
                &[],
            )
            .expect("disable swaps");
        }
        2 => {
            // a USDC balance in the collector larger than the pool can absorb within 50% spread
            w.exec_cosmos(MALLORY, BankMsg::Send { to_address: hub.collector.clone(), amount: vec![coin(5_000_000_000, USDC)] }.into()).unwrap();
        }
        4 => {
            // not a fault: a distribution-asset balance in the collector beyond 2^128 / 10^18 base units (about 340 whole
            // tokens of an 18-decimals asset), where fixed-point conversions of the balance stop fitting
            w.exec_cosmos(MALLORY, BankMsg::Send { to_address: hub.collector.clone(), amount: vec![coin(1_012_000_000_000_000_000_000, WHALE)] }.into()).unwrap();
        }
        3 => {
            // the same for the cw20 asset, which no vault holds: its swap belongs to the pools' aggregation step
            w.exec(MALLORY, &bs.tok_b, &cw20::Cw20ExecuteMsg::Transfer { recipient: hub.collector.clone(), amount: Uint128::new(5_000_000_000) }, &[]).unwrap();
        }
        _ => {}
    }
    // only the distributor may trigger forwarding
    for who in [MALLORY, OWNER] {
        let r = w.exec(who, &hub.collector, &CollExec::ForwardFees { epoch: Epoch::default(), forward_fees_as: native(WHALE) }, &[]);
        cx.check("forward_fees.only_distributor", r.is_err(), || format!("ForwardFees called by {} succeeded", who));
    }
    w.advance(DAY_NS, 1);
    let pre = observe(w, bs);
    let kv_before = w.kv_clone();
    let e1 = epoch_of(w, hub, 1).unwrap();
    let rolled: u128 = e1.available.iter().map(|a| a.amount.u128()).sum();
    let r = w.exec(MALLORY, &hub.distributor, &DistExec::NewEpoch {}, &[]);
    let post = observe(w, bs);
    // should the whole thing revert? only when a registered hop's execution fails after a successful simulation
    let a_balance_after_collection = pre.coll[1] + if pre.pair_pending[0][0] > 1000 { pre.pair_pending[0][0] } else { 0 } + pre.vault_pending[1];
    // (a disabled pair does not make the router's simulation fail, so like an excessive spread it makes the
    // executed hop fail after a successful simulation)
    let b_balance_after_collection = pre.coll[2] + if pre.pair_pending[1][0] > 1000 { pre.pair_pending[1][0] } else { 0 };
    let must_revert = ((c.fault == 2 || c.fault == 1) && has_route_a && a_balance_after_collection > 1000) || (c.fault == 3 && has_route_b && b_balance_after_collection > 1000);
    match &r {
        Err(e) => {
            cx.count("newepoch:reverted");
            cx.check("failed_step.reverts_everything", kv_equal(&kv_before, &w.kv_clone()), || "state changed although NewEpoch failed".to_string());
            cx.check("newepoch.fails_only_when_a_step_fails", must_revert, || format!("NewEpoch failed unexpectedly: {}", e.msg()));
        }
        Ok(_) => {
            cx.count("newepoch:ok");
            cx.check("failed_step.reverts_everything", !must_revert, || "a swap hop exceeding max spread did not revert the epoch creation".to_string());
            // ---- collection: pending ledgers
            for (pi, p) in [&bs.pair_a, &bs.pair_b].iter().enumerate() {
                let after = pair_fees(w, &p.addr, false).unwrap();
                for i in 0..2 {
                    let want = if pre.pair_pending[pi][i] > 1000 { 0 } else { pre.pair_pending[pi][i] };
                    // the aggregation swaps of this very transaction charge new protocol fees on the ask (uwhale) side
                    let ok = if i == 1 { after[i] >= want && after[i] - want <= (pre.pair_bal[pi][1] - post.pair_bal[pi][1]) / 50 + 1 } else { after[i] == want };
                    cx.check("collect.pool_ledgers_cleared_above_threshold", ok, || format!("pair {} asset {}: pending {} -> {} (expected {} plus fees of this epoch's own aggregation swap)", pi, i, pre.pair_pending[pi][i], after[i], want));
                }
            }
            for (vi, v) in [&bs.vault_w, &bs.vault_a].iter().enumerate() {
                let after = crate::scn_vault::vault_pending(w, v, false);
                cx.check("collect.vault_ledgers_cleared", after == 0, || format!("vault {}: pending {} -> {}", vi, pre.vault_pending[vi], after));
                if pre.vault_pending[vi] > 0 {
                    cx.count("collect:vault_nonzero");
                }
            }
            let collected_w = (if pre.pair_pending[0][1] > 1000 { pre.pair_pending[0][1] } else { 0 }) + (if pre.pair_pending[1][1] > 1000 { pre.pair_pending[1][1] } else { 0 }) + pre.vault_pending[0];
            let collected_a = (if pre.pair_pending[0][0] > 1000 { pre.pair_pending[0][0] } else { 0 }) + pre.vault_pending[1];
            let collected_b = if pre.pair_pending[1][0] > 1000 { pre.pair_pending[1][0] } else { 0 };
            if collected_w + collected_a + collected_b > 0 {
                cx.count("collect:nonzero");
            }
            // ---- aggregation: each non-distribution asset is either swapped completely or left untouched
            let a_avail = pre.coll[1] + collected_a;
            let b_avail = pre.coll[2] + collected_b;
            let a_should_swap = has_route_a && a_avail > 1000;
            let b_should_swap = has_route_b && b_avail > 1000;
            cx.check("aggregate.swapped_through_route_or_left_untouched", post.coll[1] == if a_should_swap { 0 } else { a_avail }, || {
                format!("USDC in collector: before {} + collected {} -> {} (route {}, fault {})", pre.coll[1], collected_a, post.coll[1], has_route_a, c.fault)
            });
            cx.check("aggregate.swapped_through_route_or_left_untouched", post.coll[2] == if b_should_swap { 0 } else { b_avail }, || {
                format!("tbb in collector: before {} + collected {} -> {} (route {})", pre.coll[2], collected_b, post.coll[2], has_route_b)
            });
            if a_should_swap || b_should_swap {
                cx.count("aggregate:swapped");
            }
            // proceeds of the swaps = what left the pools' WHALE side beyond the collected fees
            let pool_whale_out = |pi: usize| -> u128 { pre.pair_bal[pi][1] - post.pair_bal[pi][1] - if pre.pair_pending[pi][1] > 1000 { pre.pair_pending[pi][1] } else { 0 } };
            let proceeds = pool_whale_out(0) + pool_whale_out(1);
            if !a_should_swap {
                cx.check("aggregate.no_swap_without_route", pool_whale_out(0) == 0 && post.pair_bal[0][0] + (if pre.pair_pending[0][0] > 1000 { pre.pair_pending[0][0] } else { 0 }) == pre.pair_bal[0][0], || "pair A was traded although no swap should happen".to_string());
            }
            // ---- take rate and forwarding
            let total_whale = pre.coll[0] + collected_w + proceeds;
            let dao_delta = post.dao - pre.dao;
            let dist_delta = post.dist - pre.dist;
            cx.check("forward.collector_keeps_no_distribution_asset", post.coll[0] == 0, || format!("collector still holds {} uwhale", post.coll[0]));
            cx.check("forward.everything_goes_to_dao_or_distributor", dao_delta + dist_delta == total_whale, || format!("collector had {} uwhale to forward (balance {} + collected {} + swap proceeds {}), DAO got {} distributor got {}", total_whale, pre.coll[0], collected_w, proceeds, dao_delta, dist_delta));
            let want_dao = if active && !rate.is_zero() { (b(total_whale) * b(rate.atomics().u128()) / b(ONE18)).low_u128() } else { 0 };
            cx.check("take_rate.dao_gets_floor_rate_times_balance", dao_delta == want_dao, || format!("take rate {} active {}: DAO got {} expected floor(rate*{}) = {}", rate, active, dao_delta, total_whale, want_dao));
            if want_dao > 0 {
                cx.count("take_rate:nonzero");
            }
            let hist: Result<Coin, String> = w.query(&hub.collector, &CollQuery::TakeRateHistory { epoch_id: Uint64::new(2) });
            if want_dao > 0 {
                cx.check("take_rate.recorded_per_epoch", hist.as_ref().map(|c| (c.amount.u128(), c.denom.as_str())).ok() == Some((want_dao, WHALE)), || format!("TakeRateHistory(2) = {:?}, expected {} {}", hist, want_dao, WHALE));
            } else {
                cx.check("take_rate.recorded_per_epoch", hist.is_err() || hist.as_ref().map(|c| c.amount.is_zero()).unwrap_or(false), || format!("TakeRateHistory(2) = {:?} although nothing was taken", hist));
            }
            // ---- the new epoch
            let e2 = epoch_of(w, hub, 2).unwrap();
            let tot: u128 = e2.total.iter().map(|a| a.amount.u128()).sum();
            cx.check("epoch.total_is_forwarded_plus_rolled_over", tot == dist_delta + rolled && e2.id == Uint64::new(2), || format!("epoch 2 total {} but distributor received {} and {} rolled over from epoch 1", tot, dist_delta, rolled));
            let _ = Uint128::zero();
            // ---- one more epoch after the grace period was raised: epoch 1, already emptied into epoch 2, falls inside
            // the window again; what is rolled over must be what it still has available (nothing), not its old total
            w.exec(OWNER, &hub.distributor, &DistExec::UpdateConfig { owner: None, bonding_contract_addr: None, fee_collector_addr: None, grace_period: Some(Uint64::new(2)), distribution_asset: None, epoch_config: None }, &[]).expect("grace period 2");
            w.advance(DAY_NS, 1);
            let e1_avail: u128 = epoch_of(w, hub, 1).unwrap().available.iter().map(|a| a.amount.u128()).sum();
            let dist0 = w.native_balance(&hub.distributor, WHALE);
            if w.exec(MALLORY, &hub.distributor, &DistExec::NewEpoch {}, &[]).is_ok() {
                cx.count("newepoch:third_after_grace_increase");
                let got = w.native_balance(&hub.distributor, WHALE) - dist0;
                let e3 = epoch_of(w, hub, 3).unwrap();
                let tot3: u128 = e3.total.iter().map(|a| a.amount.u128()).sum();
                cx.check("epoch.total_is_forwarded_plus_rolled_over", tot3 == got + e1_avail, || format!("epoch 3 (after raising the grace period to 2) total {} but the distributor received {} and the re-selected epoch 1 had {} available", tot3, got, e1_avail));
                let all_avail: u128 = (1..=3).map(|i| epoch_of(w, hub, i).unwrap().available.iter().map(|a| a.amount.u128()).sum::<u128>()).sum();
                let held = w.native_balance(&hub.distributor, WHALE);
                cx.check("distributor.holds_all_available", held >= all_avail, || format!("distributor holds {} uwhale but the epochs' available amounts add up to {}", held, all_avail));
                // ---- and a fourth one: nothing new has been earned, so epoch 3 may well be an epoch without any fees; epoch 2
                // now leaves the two-epoch window and what it still has available moves into epoch 4
                w.advance(DAY_NS, 1);
                let e2_avail: u128 = epoch_of(w, hub, 2).unwrap().available.iter().map(|a| a.amount.u128()).sum();
                let e3_empty = tot3 == 0;
                let dist0 = w.native_balance(&hub.distributor, WHALE);
                if w.exec(MALLORY, &hub.distributor, &DistExec::NewEpoch {}, &[]).is_ok() {
                    cx.count("newepoch:fourth");
                    if e3_empty && e2_avail > 0 {
                        cx.count("newepoch:fourth_after_an_epoch_without_fees");
                    }
                    let got = w.native_balance(&hub.distributor, WHALE) - dist0;
                    let tot4: u128 = epoch_of(w, hub, 4).unwrap().total.iter().map(|a| a.amount.u128()).sum();
                    cx.check("epoch.total_is_forwarded_plus_rolled_over", tot4 == got + e2_avail, || format!("epoch 4 total {} but the distributor received {} and epoch 2, which left the window, had {} available (epoch 3 total {})", tot4, got, e2_avail, tot3));
                    let e2_after: u128 = epoch_of(w, hub, 2).unwrap().available.iter().map(|a| a.amount.u128()).sum();
                    cx.check("epoch.expired_epoch_is_emptied", e2_after == 0, || format!("epoch 2 left the grace window but still has {} available", e2_after));
                    // ---- and a fifth one that does carry fees (somebody pays the collector directly) while the epoch leaving the
                    // window, epoch 3, is in most configurations an epoch that never had any: the fees must still be in the total
                    w.advance(DAY_NS, 1);
                    w.mint_native(&hub.collector, 777_777, WHALE);
                    let e3_avail: u128 = epoch_of(w, hub, 3).unwrap().available.iter().map(|a| a.amount.u128()).sum();
                    let (dist0, dao0) = (w.native_balance(&hub.distributor, WHALE), w.native_balance(DAO, WHALE));
                    if w.exec(MALLORY, &hub.distributor, &DistExec::NewEpoch {}, &[]).is_ok() {
                        cx.count("newepoch:fifth");
                        if e3_empty {
                            cx.count("newepoch:fifth_with_fees_while_an_epoch_without_fees_expires");
                        }
                        let got = w.native_balance(&hub.distributor, WHALE) - dist0;
                        let dao_got = w.native_balance(DAO, WHALE) - dao0;
                        let tot5: u128 = epoch_of(w, hub, 5).unwrap().total.iter().map(|a| a.amount.u128()).sum();
                        cx.check("epoch.total_is_forwarded_plus_rolled_over", tot5 == got + e3_avail && got + dao_got >= 777_777, || {
                            format!("epoch 5 total {} but the distributor received {} (DAO {}) of at least 777777 paid in, and epoch 3, which left the window, had {} available (its total was {})", tot5, got, dao_got, e3_avail, tot3)
                        });
                    }
                }
            }
        }
    }
}

/// More registered vaults than one default page (10) of the vault factory's listing, up to the 30 the collector asks for:
/// `total` vaults, every one owing protocol fees above the collection threshold; NewEpoch must collect from all of them.
pub fn run_many_vaults(w: &mut World, bs: &Base, total: usize, cx: &mut Cx) {
    w.restore(&bs.snap);
    let hub = &bs.hub;
    let fees = Fee3::new(ONE18 / 100, 0, 0);
    let mut vaults: Vec<VH> = vec![bs.vault_w.clone(), bs.vault_a.clone()];
    for i in 0..total.saturating_sub(2) {
        let denom = format!("uv{}{}", (b'a' + (i / 26) as u8) as char, (b'a' + (i % 26) as u8) as char);
        w.mint_native(ALICE, 10_000_000_000, &denom);
        let v = vault_handle(w, hub, native(&denom), fees);
        vault_deposit(w, &v, ALICE, 1_000_000_000).expect("many vaults: deposit");
        vaults.push(v);
    }
    for v in &vaults {
        vault_fee_state(w, v, 2);
    }
    let pending_before: Vec<u128> = vaults.iter().map(|v| crate::scn_vault::vault_pending(w, v, false)).collect();
    w.advance(DAY_NS, 1);
    let r = w.exec(MALLORY, &hub.distributor, &DistExec::NewEpoch {}, &[]);
    cx.count("many_vaults:case");
    match r {
        Ok(_) => {
            cx.count("many_vaults:newepoch_ok");
            let left: Vec<(usize, u128)> = vaults.iter().enumerate().map(|(i, v)| (i, crate::scn_vault::vault_pending(w, v, false))).filter(|(_, p)| *p != 0).collect();
            // (known finding KF-C10-page-of-30: the collector asks the factory for ONE page of at most 30 vaults, so with more
            // than 30 registered exactly the ones beyond that page, in the factory's key order, are left out; any other number
            // of uncollected vaults is a different failure)
            let sig = if total > 30 && left.len() == total - 30 { "only-the-first-page-of-30" } else { "" };
            cx.check_sig("collect.every_registered_vault_is_collected", sig, left.is_empty() && pending_before.iter().all(|p| *p > 1000), || {
                format!("{} vaults registered, each owing {:?} before NewEpoch: {} of them still owe fees after it, e.g. vault #{} over {:?} owes {}", total, pending_before.iter().min(), left.len(), left.first().map(|x| x.0).unwrap_or(0), left.first().map(|x| vaults[x.0].asset.clone()), left.first().map(|x| x.1).unwrap_or(0))
            });
        }
        Err(e) => cx.check("newepoch.fails_only_when_a_step_fails", false, || format!("NewEpoch with {} registered vaults failed: {}", total, e.msg())),
    }
}

pub const MANY_VAULTS: [usize; 6] = [9, 10, 11, 12, 30, 31];

pub fn run(tier: &str, seed: u64) -> i32 {
    let mut ev = Evidence::new("C10", tier, seed);
    ev.assumptions = vec![
        "registered pools = the pairs and vaults the factories list (the collector does not enumerate three-asset pools)".into(),
        "pool/vault fees: protocol 1%, no burn fee, so the distribution asset is conserved across contracts; fee states produced by real swaps and loans".into(),
        "single NewEpoch transaction per configuration; epoch 1 (total 777, grace 1) rolls over into epoch 2".into(),
    ];
    let base = build_base();
    let cfgs = all_cfgs();
    let res = par_index_with(cfgs.len(), 3, World::new, |i, cx, w| run_cfg(w, &base, &cfgs[i], cx));
    let n = cfgs.len();
    // the same hub with an ibc voucher denom as distribution asset, on the sub-grid without faults and vault fees
    {
        let base_ibc = build_base_with(IBC_WHALE);
        let sub: Vec<Cfg> = all_cfgs().into_iter().filter(|c| c.fault == 0 && c.vault_w == 0 && c.vault_a == 0).collect();
        let res = par_index_with(sub.len(), 3, World::new, |i, cx, w| run_cfg(w, &base_ibc, &sub[i], cx));
        let m = sub.len();
        ev.add_grid_result(
            "pipeline-configurations-ibc-distribution-asset",
            "distribution asset = an ibc voucher denom: pair A/B fee states x take rates x routes, no faults, no vault fees",
            res,
            &|i| {
                let mut v = cfg_json(&sub[i]);
                v["distribution_asset"] = json!(IBC_WHALE);
                v
            },
            &[0, m / 2, m - 1],
        );
    }
    {
        let res = par_index_with(MANY_VAULTS.len(), 3, World::new, |i, cx, w| run_many_vaults(w, &base, MANY_VAULTS[i], cx));
        ev.add_grid_result(
            "many-registered-vaults",
            "9, 10, 11, 12, 30 and 31 registered vaults (the factory's default page holds 10, the collector asks for 30), each owing fees above the threshold",
            res,
            &|i| json!({"many_vaults": MANY_VAULTS[i]}),
            &[0, 2, 5],
        );
    }
    ev.add_grid_result(
        "pipeline-configurations",
        "full product: pair A/B fee state {0,<1000,>1000 both sides,mixed}^2 x vault W/A fee state {0,500,5000}^2 x take rate {inactive,0,1e-18,1%,50%,1-1e-18} x routes {both,none,A,B} x fault {none, pair A swaps disabled, A hop exceeds max spread, B hop exceeds max spread, none with a 1e21 balance}",
        res,
        &|i| cfg_json(&cfgs[i]),
        &[0, n / 3, n / 2, n - 1],
    );
    ev.validated = ev.counters.get("newepoch:ok").cloned().unwrap_or(0);
    if ev.violations.is_empty() {
        for c in ["newepoch:ok", "newepoch:reverted", "collect:nonzero", "collect:vault_nonzero", "aggregate:swapped", "take_rate:nonzero", "newepoch:fourth_after_an_epoch_without_fees", "newepoch:fifth_with_fees_while_an_epoch_without_fees_expires"] {
            ev.require_counter(c, 1);
        }
    }
    let _ = tier;
    ev.finish()
}

pub fn replay(doc: &Value) -> bool {
    if let Some(total) = doc["point"]["many_vaults"].as_u64() {
        let base = build_base();
        let mut w = World::new();
        let mut cx = Cx { verbose: true, ..Default::default() };
        run_many_vaults(&mut w, &base, total as usize, &mut cx);
        let want = doc["oracle"].as_str().unwrap_or("");
        let mut rep = false;
        for v in &cx.violations {
            println!("  !! {} [{}]: {}", v.oracle, v.sig, v.detail);
            rep |= v.oracle == want;
        }
        println!("reproduced={rep}");
        return rep;
    }
    let c = cfg_from(&doc["point"]);
    let base = match doc["point"]["distribution_asset"].as_str() {
        Some(d) => build_base_with(d),
        None => build_base(),
    };
    let mut w = World::new();
    let mut cx = Cx { verbose: true, ..Default::default() };
    println!("configuration {:?}", c);
    run_cfg(&mut w, &base, &c, &mut cx);
    let want = doc["oracle"].as_str().unwrap_or("");
    let mut rep = false;
    for v in &cx.violations {
        println!("  !! {} [{}]: {}", v.oracle, v.sig, v.detail);
        if v.oracle == want {
            rep = true;
        }
    }
    println!("reproduced={rep}");
    rep
}
