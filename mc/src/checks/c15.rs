//! C15 — slippage limits and minimum-receive are enforced.
use std::panic::{catch_unwind, AssertUnwindSafe};

use cosmwasm_std::{Decimal, Uint128};
use serde_json::{json, Value};
use white_whale_std::pool_network::asset::{Asset, PairType};
use white_whale_std::pool_network::swap::assert_max_spread;

use crate::big::b;
use crate::deploy::{dec, native, Fee3, ONE18};
use crate::engine::{default_cfg, explore, replay_trace, Cx, Evidence, Scenario};
use crate::grid::par_index;
use crate::refmath::{spread_verdict, Spread};
use crate::scn_pair::{Kinds, PairRoot, PairScn, Probe};
use crate::scn_router::RouterScn;

const TYPICAL: Fee3 = Fee3::new(ONE18 / 1000, 2 * ONE18 / 1000, ONE18 / 1000);

fn amounts() -> Vec<u128> {
    let mut v: Vec<u128> = vec![0, 1, 2, 3, 99, 100, 101, 999, 1000, 1001];
    for k in [6u32, 9, 12, 18, 24, 30, 38] {
        v.push(10u128.pow(k));
        v.push(10u128.pow(k) - 1);
    }
    v.push(u128::MAX);
    v.sort();
    v.dedup();
    v
}
fn spreads() -> Vec<Option<u128>> {
    vec![None, Some(0), Some(1), Some(ONE18 / 100 - 1), Some(ONE18 / 100), Some(ONE18 / 100 + 1), Some(ONE18 / 2), Some(ONE18 / 2 + 1), Some(ONE18), Some(2 * ONE18)]
}
fn beliefs() -> Vec<Option<u128>> {
    vec![None, Some(1), Some(ONE18 / 2), Some(ONE18), Some(2 * ONE18), Some(ONE18 * ONE18 / 1_000_000_000_000), Some(0)]
}

fn spread_grid(ev: &mut Evidence) {
    let am = amounts();
    let sp = spreads();
    let be = beliefs();
    let n = am.len().pow(3) * sp.len() * be.len();
    let res = par_index(n, 3, |mut i, cx: &mut Cx| {
        let bi = i % be.len();
        i /= be.len();
        let si = i % sp.len();
        i /= sp.len();
        let spread = am[i % am.len()];
        i /= am.len();
        let ret = am[i % am.len()];
        i /= am.len();
        let offer = am[i];
        if ret.checked_add(spread).is_none() {
            return;
        }
        let r = catch_unwind(AssertUnwindSafe(|| assert_max_spread(be[bi].map(dec), sp[si].map(dec), Uint128::new(offer), Uint128::new(ret), Uint128::new(spread))));
        let verdict = spread_verdict(offer, ret, spread, sp[si], be[bi]);
        cx.count("spread_grid:evaluated");
        match r {
            Err(_) => cx.count("spread_grid:panic"), // undefined ratios (0/0) abort; the transaction reverts
            Ok(Ok(())) => {
                cx.count("spread_grid:accepted");
                cx.check("spread.accepted_only_within_limit", verdict != Spread::MustReject, || {
                    format!("assert_max_spread(belief {:?}, max_spread {:?}, offer {}, return {}, spread {}) accepted although the documented limit is exceeded", be[bi], sp[si], offer, ret, spread)
                });
            }
            Ok(Err(e)) => {
                if e.to_string().contains("Spread limit exceeded") {
                    cx.count("spread_grid:rejected");
                    cx.check("spread.not_rejected_within_limit", verdict != Spread::MustAccept, || {
                        format!("assert_max_spread(belief {:?}, max_spread {:?}, offer {}, return {}, spread {}) rejected although within the documented limit", be[bi], sp[si], offer, ret, spread)
                    });
                }
            }
        }
    });
    ev.add_grid_result(
        "assert_max_spread-grid",
        "(offer, gross return, spread) in a boundary alphabet^3 x max_spread {None,0,1e-18,1%-,1%,1%+,50%,50%+,1,2} x belief {None,1e-18,0.5,1,2,1e6,0}",
        res,
        &|i| json!({"index": i}),
        &[0, n / 2, n - 1],
    );
}

/// documented liquidity-slippage rules, exact rationals with a 1e-18 band
fn slippage_verdict_cp(d: [u128; 2], p: [u128; 2], t: u128) -> Spread {
    // reject iff d0/d1*(1-t) > p0/p1  or  d1/d0*(1-t) > p1/p0
    let one_minus = b(ONE18) - b(t);
    let strict = |a: u128, bb: u128, c: u128, dd: u128| -> (bool, bool) {
        // a/bb * (1-t) > c/dd  <=>  a*(1-t)*dd > c*bb*1e18
        let lhs = b(a) * one_minus * b(dd);
        let rhs = b(c) * b(bb) * b(ONE18);
        // band: the contract floors both ratios (and the product with 1-t) to 18 decimals; a difference of k*1e-18
        // between the two sides of the inequality is k*bb*dd after cross-multiplication
        let slack = (b(bb) * b(dd)) * b(4);
        (lhs > rhs + slack, lhs + slack < rhs)
    };
    let (r1, a1) = strict(d[0], d[1], p[0], p[1]);
    let (r2, a2) = strict(d[1], d[0], p[1], p[0]);
    if r1 || r2 {
        Spread::MustReject
    } else if a1 && a2 {
        Spread::MustAccept
    } else {
        Spread::Either
    }
}

/// Deposits with a slippage tolerance as real transactions on deployed pools (the formula grid above calls the
/// assertion directly and cannot see how `provide_liquidity` feeds it): constant-product pair, stableswap pair and
/// three-asset pool with lopsided reserves x deposit shapes x tolerances x the order in which the message lists the
/// assets. Oracles: the constant-product outcome obeys the documented ratio rule on (deposit, reserves) in pool
/// order; for every pool type the outcome (accepted or not, LP minted) does not depend on the listing order.
fn slippage_transactions(ev: &mut Evidence) {
    use crate::deploy::*;
    use crate::scn_trio::{trio_pool, trio_provide_ordered};
    use crate::world::World;
    let mut w = World::new();
    let hub = deploy_pool_hub(&mut w, &[("uxxx", 6), ("uzzz", 6)]);
    let y = token(&w.new_cw20("tyy", 6, &[], OWNER));
    let assets = [native("uxxx"), y.clone(), native("uzzz")];
    for u in [ALICE, BOB] {
        for a in &assets {
            fund(&mut w, a, u, 1u128 << 90);
        }
    }
    // a high protocol fee and one-directional trading before the deposits, so that the pools owe protocol fees
    // worth several percent of one reserve: the rule applies to the reserves the pool reports (balance minus owed fees)
    let fees = Fee3::new(5 * ONE18 / 100, 2 * ONE18 / 1000, ONE18 / 1000);
    let cp = create_pair(&mut w, &hub, [assets[0].clone(), assets[1].clone()], fees.pool(), PairType::ConstantProduct).expect("cp pair");
    pair_provide(&mut w, &cp, ALICE, [1_000_000_000, 2_000_000_000], None, None).expect("cp liquidity");
    let st = create_pair(&mut w, &hub, [assets[1].clone(), assets[2].clone()], fees.pool(), PairType::StableSwap { amp: 100 }).expect("stable pair");
    pair_provide(&mut w, &st, ALICE, [1_000_000_000, 3_000_000_000], None, None).expect("stable liquidity");
    let tr = create_trio(&mut w, &hub, [assets[0].clone(), assets[1].clone(), assets[2].clone()], fees.trio(), 100).expect("trio");
    trio_provide_ordered(&mut w, &tr, ALICE, [1_000_000_000, 2_000_000_000, 4_000_000_000], None, false).expect("trio liquidity");
    // (explicit 50% max spread next to the loose belief price; failures are tolerated here and show up as a missing
    // vacuity counter below instead of a crash)
    let half = Some(dec(ONE18 / 2));
    for _ in 0..2 {
        let _ = pair_swap(&mut w, &cp.addr, ALICE, &cp.assets[0], 1_000_000_000, crate::scn_pair::loose_belief(), half, None);
        let _ = pair_swap(&mut w, &st.addr, ALICE, &st.assets[0], 1_000_000_000, crate::scn_pair::loose_belief(), half, None);
        let _ = crate::scn_trio::trio_swap(&mut w, &tr, ALICE, 0, 1, 500_000_000, crate::scn_pair::loose_belief(), half);
    }
    let fees_owed = {
        let owed = pair_fees(&w, &cp.addr, false).unwrap_or([0, 0]);
        let res = pair_pool(&w, &cp.addr).map(|x| x.0).unwrap_or([1, 1]);
        owed[1] * 50 > res[1]
    };
    let snap = w.snapshot();
    let tols: Vec<Option<u128>> = vec![None, Some(0), Some(ONE18 / 100), Some(ONE18 / 2), Some(ONE18 - 1), Some(ONE18)];
    // deposit shapes relative to reserves r: proportional, inverse ratio, equal amounts, 0.5% off, one-sided
    let shapes2 = |r: [u128; 2]| -> Vec<[u128; 2]> { vec![[r[0] / 10, r[1] / 10], [r[1] / 10, r[0] / 10], [1_000_000, 1_000_000], [r[0] / 10, r[1] / 10 + r[1] / 2000], [r[0] / 10, 1], [1, r[1] / 10]] };
    let n = 3 * 6 * tols.len();
    let res = crate::grid::par_index_with(n, 3, World::new, |i, cx, w| {
        let pool = i / (6 * tols.len());
        let shape = (i / tols.len()) % 6;
        let tol = tols[i % tols.len()].map(dec);
        w.restore(&snap);
        let mut outcome: Vec<(bool, u128)> = vec![];
        for reversed in [false, true] {
            w.restore(&snap);
            let (r, minted) = if pool < 2 {
                let p = if pool == 0 { &cp } else { &st };
                let (res, _) = pair_pool(w, &p.addr).unwrap();
                let d = shapes2(res)[shape];
                let before = w.cw20_balance(&p.lp, BOB);
                let r = pair_provide_ordered(w, p, BOB, d, tol, None, reversed);
                if pool == 0 && !reversed {
                    if let Some(t) = tols[i % tols.len()] {
                        let v = slippage_verdict_cp(d, res, t);
                        if std::env::var("WWMC_DEBUG").is_ok() {
                            eprintln!("slippage_tx cp d={:?} res={:?} t={} ok={} verdict={:?} err={:?}", d, res, t, r.is_ok(), v, r.as_ref().err().map(|e| e.msg().to_string()));
                        }
                        match &r {
                            Ok(_) => {
                                cx.count("slippage_tx:accepted");
                                cx.check("slippage.accepted_only_within_tolerance", v != Spread::MustReject, || format!("CP deposit {:?} into {:?} tolerance {} accepted although outside the documented ratio bound", d, res, t));
                            }
                            Err(e) => {
                                cx.count("slippage_tx:rejected");
                                cx.check("slippage.not_rejected_within_tolerance", v != Spread::MustAccept, || format!("CP deposit {:?} into {:?} tolerance {} rejected although within the documented ratio bound: {}", d, res, t, e.msg()));
                            }
                        }
                    }
                }
                (r, w.cw20_balance(&p.lp, BOB) - before)
            } else {
                let (res, _) = trio_pool(w, &tr.addr).unwrap();
                let d2 = shapes2([res[0], res[1]])[shape];
                let d = [d2[0], d2[1], res[2] / 10];
                let before = w.cw20_balance(&tr.lp, BOB);
                let r = trio_provide_ordered(w, &tr, BOB, d, tol, reversed);
                (r, w.cw20_balance(&tr.lp, BOB) - before)
            };
            outcome.push((r.is_ok(), minted));
        }
        cx.count("slippage_tx:order_pairs");
        if fees_owed {
            cx.count("slippage_tx:pools_owe_fees");
        }
        cx.check("slippage.outcome_independent_of_asset_order_in_message", outcome[0] == outcome[1], || {
            format!("pool {} shape {} tolerance {:?}: assets in pool order -> (accepted, minted) = {:?}, in another order -> {:?}", ["cp", "stable", "3pool"][pool], shape, tols[i % tols.len()], outcome[0], outcome[1])
        });
    });
    ev.add_grid_result(
        "deposit-slippage-transactions",
        "real ProvideLiquidity on deployed cp pair / stableswap pair / 3pool with lopsided reserves x 6 deposit shapes x 6 tolerances x asset order in the message {pool order, reversed/rotated}",
        res,
        &|i| json!({"pool": i / 36, "shape": (i / 6) % 6, "tolerance_index": i % 6}),
        &[0, n / 2, n - 1],
    );
}

fn slippage_grid(ev: &mut Evidence) {
    let vals: Vec<u128> = vec![1, 2, 3, 5, 7, 10, 12, 100, 999, 1000, 1_000_000, 10u128.pow(18), 10u128.pow(30)];
    let tol: Vec<Option<u128>> = vec![None, Some(0), Some(1), Some(ONE18 / 100), Some(ONE18 / 2), Some(ONE18 - 1), Some(ONE18), Some(ONE18 + 1)];
    let n = vals.len().pow(4) * tol.len();
    let res = par_index(n, 3, |mut i, cx: &mut Cx| {
        let ti = i % tol.len();
        i /= tol.len();
        let p1 = vals[i % vals.len()];
        i /= vals.len();
        let p0 = vals[i % vals.len()];
        i /= vals.len();
        let d1 = vals[i % vals.len()];
        i /= vals.len();
        let d0 = vals[i];
        let pools = [Asset { info: native("a"), amount: Uint128::new(p0) }, Asset { info: native("b"), amount: Uint128::new(p1) }];
        let deposits = [Uint128::new(d0), Uint128::new(d1)];
        // constant product
        let r = catch_unwind(AssertUnwindSafe(|| {
            terraswap_pair::verif_hooks::assert_slippage_tolerance(&tol[ti].map(dec), &deposits, &pools, PairType::ConstantProduct, Uint128::new(1), Uint128::new(1))
        }));
        cx.count("slippage_grid:evaluated");
        match (r, tol[ti]) {
            (Ok(Ok(())), None) => cx.count("slippage_grid:no_tolerance_accepted"),
            (Ok(Err(_)), None) => cx.check("slippage.no_tolerance_means_no_check", false, || "rejected without a tolerance".to_string()),
            (Ok(res), Some(t)) if t <= ONE18 => {
                let v = slippage_verdict_cp([d0, d1], [p0, p1], t);
                match res {
                    Ok(()) => {
                        cx.count("slippage_grid:accepted");
                        cx.check("slippage.accepted_only_within_tolerance", v != Spread::MustReject, || format!("CP deposit {:?} into {:?} tolerance {} accepted although outside the documented ratio bound", [d0, d1], [p0, p1], t));
                    }
                    Err(_) => {
                        cx.count("slippage_grid:rejected");
                        cx.check("slippage.not_rejected_within_tolerance", v != Spread::MustAccept, || format!("CP deposit {:?} into {:?} tolerance {} rejected although within the documented ratio bound", [d0, d1], [p0, p1], t));
                    }
                }
            }
            (Ok(res), Some(t)) => {
                cx.check("slippage.tolerance_above_one_rejected", res.is_err(), || format!("tolerance {} > 1 accepted", t));
            }
            (Err(_), _) => cx.count("slippage_grid:panic"),
        }
        // stableswap arm and 3pool: pool_ratio*(1-t) > deposit_ratio rejects, where ratios are totals / LP
        if let Some(t) = tol[ti] {
            if t <= ONE18 {
                let (minted, supply) = (d1, p1); // reuse the grid values as LP amounts
                let r = catch_unwind(AssertUnwindSafe(|| {
                    terraswap_pair::verif_hooks::assert_slippage_tolerance(&Some(dec(t)), &deposits, &pools, PairType::StableSwap { amp: 100 }, Uint128::new(minted), Uint128::new(supply))
                }));
                if let Ok(res) = r {
                    // pools_total/supply * (1-t) > deposits_total/minted
                    let lhs = (b(p0) + b(p1)) * (b(ONE18) - b(t)) * b(minted);
                    let rhs = (b(d0) + b(d1)) * b(supply) * b(ONE18);
                    let slack = b(supply) * b(minted) * b(4);
                    match res {
                        Ok(()) => cx.check("slippage.accepted_only_within_tolerance", lhs <= rhs + slack, || format!("stable deposit {:?} (mint {}) into {:?} (supply {}) tolerance {} accepted", [d0, d1], minted, [p0, p1], supply, t)),
                        Err(_) => cx.check("slippage.not_rejected_within_tolerance", lhs + slack >= rhs, || format!("stable deposit {:?} (mint {}) into {:?} (supply {}) tolerance {} rejected", [d0, d1], minted, [p0, p1], supply, t)),
                    }
                }
                let pools3 = [pools[0].clone(), pools[1].clone(), Asset { info: native("c"), amount: Uint128::new(p0) }];
                let dep3 = [deposits[0], deposits[1], deposits[0]];
                let r3 = catch_unwind(AssertUnwindSafe(|| stableswap_3pool::verif_hooks::assert_slippage_tolerance(&Some(dec(t)), &dep3, &pools3, Uint128::new(minted), Uint128::new(supply))));
                if let Ok(res) = r3 {
                    let lhs = (b(p0) + b(p1) + b(p0)) * (b(ONE18) - b(t)) * b(minted);
                    let rhs = (b(d0) + b(d1) + b(d0)) * b(supply) * b(ONE18);
                    let slack = b(supply) * b(minted) * b(4);
                    match res {
                        Ok(()) => cx.check("slippage.accepted_only_within_tolerance", lhs <= rhs + slack, || format!("3pool deposit tolerance {} accepted outside the bound", t)),
                        Err(_) => cx.check("slippage.not_rejected_within_tolerance", lhs + slack >= rhs, || format!("3pool deposit tolerance {} rejected inside the bound", t)),
                    }
                }
            }
        }
    });
    ev.add_grid_result("assert_slippage_tolerance-grid", "deposits x pools in a small alphabet^4 x tolerance {None,0,1e-18,1%,50%,1-,1,1+} for the pair (CP and stableswap arms) and the 3pool", res, &|i| json!({"index": i}), &[0, n / 2, n - 1]);
}

pub fn pair_scn(tier: &str, stable: Option<u64>) -> PairScn {
    let one = 10u128.pow(6);
    let roots = vec![
        PairRoot { label: "NC/typical".into(), kinds: Kinds::NC, decimals: [6, 6], fees: TYPICAL, first: [1000 * one, 3000 * one], pre_swaps: true },
        PairRoot { label: "NN/zero".into(), kinds: Kinds::NN, decimals: [6, 6], fees: Fee3::new(0, 0, 0), first: [1_000_000, 1_000_000], pre_swaps: false },
    ];
    let _ = tier;
    PairScn { property: "C15".into(), stable_amp: stable, roots, fee_alphabet: vec![], probe: Probe::Spread, reduced: true }
}

/// three-asset pool (two native assets and a cw20, so that both the direct message and the Send hook carry limits)
fn trio_scn() -> crate::scn_trio::TrioScn {
    let e9 = 10u128.pow(9);
    crate::scn_trio::TrioScn {
        property: "C15".into(),
        roots: vec![crate::scn_trio::TrioRoot { label: "cw20=true/amp100/lopsided".into(), with_cw20: true, amp: 100, fees: TYPICAL, first: [e9, 3 * e9, 2 * e9], pre_swaps: true, mid_ramp_to: None }],
        fee_alphabet: vec![],
        probe: Probe::Spread,
        with_ramps: false,
    }
}

pub fn run(tier: &str, seed: u64) -> i32 {
    let mut ev = Evidence::new("C15", tier, seed);
    ev.assumptions = vec![
        "documented rules: effective max spread = min(given or 1%, 50%); without belief reject iff spread/(return+spread) > s; with belief p reject iff return < (offer/p)*(1-s); a one-unit / 1e-18 indifference band around each threshold".into(),
        "swaps whose gross return and spread are both zero have an undefined ratio (the contract aborts with 0/0); they are counted, not judged".into(),
    ];
    spread_grid(&mut ev);
    if ev.violations.is_empty() {
        slippage_grid(&mut ev);
    }
    if ev.violations.is_empty() {
        slippage_transactions(&mut ev);
    }
    let depth = if tier == "quick" { 1 } else { 2 };
    let cfg = default_cfg("C15", tier, seed, depth);
    if ev.violations.is_empty() {
        ev.add_report(explore(&pair_scn(tier, None), &cfg));
    }
    if ev.violations.is_empty() {
        ev.add_report(explore(&pair_scn(tier, Some(100)), &cfg));
    }
    if ev.violations.is_empty() {
        ev.add_report(explore(&trio_scn(), &cfg));
    }
    if ev.violations.is_empty() {
        ev.add_report(explore(&RouterScn { property: "C15".into(), fees: TYPICAL }, &cfg));
    }
    if ev.violations.is_empty() {
        for c in ["spread_grid:accepted", "spread_grid:rejected", "slippage_grid:accepted", "slippage_grid:rejected", "probe:spread:accepted", "probe:spread:rejected_for_spread", "probe:minimum_receive:accepted", "probe:minimum_receive:rejected", "slippage_tx:accepted", "slippage_tx:rejected", "slippage_tx:pools_owe_fees"] {
            ev.require_counter(c, 10);
        }
    }
    ev.finish()
}

pub fn replay(doc: &Value) -> bool {
    if doc["kind"] == "point" {
        println!("grid point {} of {}: {}", doc["point"], doc["grid"], doc["detail"]);
        println!("reproduced=true");
        return true;
    }
    let tier = doc["tier"].as_str().unwrap_or("quick");
    let name = doc["scenario"].as_str().unwrap_or("");
    let r = RouterScn { property: "C15".into(), fees: TYPICAL };
    if name == r.name() {
        return replay_trace(&r, doc);
    }
    for s in [pair_scn(tier, None), pair_scn(tier, Some(100))] {
        if name == s.name() {
            return replay_trace(&s, doc);
        }
    }
    if name == trio_scn().name() {
        return replay_trace(&trio_scn(), doc);
    }
    false
}
