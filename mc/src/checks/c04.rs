//! C04 — three-asset stableswap pool: solvent, LP value monotone, amp ramps bounded.
use serde_json::{json, Value};

use crate::deploy::{Fee3, ONE18};
use crate::engine::{default_cfg, explore, replay_trace, Cx, Evidence};
use crate::grid::par_index;
use crate::scn_pair::Probe;
use crate::scn_trio::{effective_amp, TrioRoot, TrioScn};

pub const FEES: [Fee3; 4] = [
    Fee3::new(0, 0, 0),
    Fee3::new(ONE18 / 1000, 2 * ONE18 / 1000, ONE18 / 1000),
    Fee3::new(3 * ONE18 / 10, 3 * ONE18 / 10, 3 * ONE18 / 10),
    Fee3::new(1, 1, 1),
];

pub fn roots(tier: &str) -> Vec<TrioRoot> {
    let mut v = vec![];
    let e9 = 10u128.pow(9);
    let combos: Vec<(bool, u64, usize, [u128; 3], bool)> = if tier == "quick" {
        vec![
            (false, 100, 1, [e9, e9, e9], false),
            (true, 1, 0, [e9, e9 / 100, e9 * 100], true),
            (false, 1_000_000, 2, [1u128 << 100, 1u128 << 100, 1u128 << 99], false),
            (false, 100, 1, [0, 0, 0], false),
        ]
    } else if tier == "deep" {
        vec![(false, 100, 1, [e9, e9, e9], false), (true, 1, 0, [e9, e9 / 100, e9 * 100], true)]
    } else {
        let mut c = vec![];
        for cw in [false, true] {
            for amp in [1u64, 100, 1_000_000] {
                for f in 0..4usize {
                    for (first, pre) in [([e9, e9, e9], false), ([e9, e9 / 100, e9 * 100], true), ([1u128 << 100, 1u128 << 100, 1u128 << 99], true)] {
                        if cw && f % 2 == 1 {
                            continue;
                        }
                        c.push((cw, amp, f, first, pre));
                    }
                }
            }
        }
        c.push((false, 100, 1, [0, 0, 0], false));
        c
    };
    for (cw, amp, f, first, pre) in combos {
        v.push(TrioRoot { label: format!("cw20={}/amp{}/fees{}/first{:?}/pre={}", cw, amp, f, first, pre), with_cw20: cw, amp, fees: FEES[f], first, pre_swaps: pre, mid_ramp_to: None });
    }
    let e9 = 10u128.pow(9);
    v.push(TrioRoot { label: "cw20=false/amp100->1000 mid-ramp/fees1".into(), with_cw20: false, amp: 100, fees: FEES[1], first: [e9, 2 * e9, e9], pre_swaps: true, mid_ramp_to: Some(1000) });
    v
}

pub fn scenario(tier: &str, with_ramps: bool) -> TrioScn {
    TrioScn { property: "C04".into(), roots: roots(tier), fee_alphabet: vec![FEES[0], FEES[2]], probe: Probe::None, with_ramps }
}

pub fn c07_trio_scn(tier: &str) -> TrioScn {
    let e12 = 10u128.pow(12);
    let mut roots = vec![];
    for cw in [false, true] {
        for (fi, f) in crate::checks::c07::PFEES.iter().enumerate().take(2) {
            if tier == "quick" && cw && fi == 1 {
                continue;
            }
            roots.push(TrioRoot { label: format!("cw20={}/fees{}", cw, fi), with_cw20: cw, amp: 100, fees: *f, first: [e12, e12, e12], pre_swaps: fi == 0, mid_ramp_to: None });
        }
    }
    TrioScn { property: "C07".into(), roots, fee_alphabet: vec![crate::checks::c07::PFEES[1], crate::checks::c07::PFEES[2], crate::checks::c07::PFEES[3]], probe: Probe::None, with_ramps: false }
}

/// compute_amp_factor (hook) over the full small grid of (initial, target, start, stop, now)
fn amp_grid(ev: &mut Evidence) {
    let vals: Vec<u64> = vec![0, 1, 2, 10, 999, 1_000_000];
    let n = vals.len();
    let total = n.pow(5);
    let res = par_index(total, 3, |i, cx: &mut Cx| {
        let (a, b_, c, d, e) = (vals[i % n], vals[(i / n) % n], vals[(i / n / n) % n], vals[(i / n / n / n) % n], vals[(i / n / n / n / n) % n]);
        let (initial, target, start, stop, now) = (a.max(1), b_.max(1), c, d, e);
        if start > stop || now < start {
            cx.count("amp_grid:skipped_unreachable");
            return;
        }
        let cfg = white_whale_std::pool_network::trio::Config {
            owner: cosmwasm_std::Addr::unchecked("o"),
            fee_collector_addr: cosmwasm_std::Addr::unchecked("c"),
            pool_fees: FEES[0].trio(),
            feature_toggle: white_whale_std::pool_network::trio::FeatureToggle { withdrawals_enabled: true, deposits_enabled: true, swaps_enabled: true },
            initial_amp: initial,
            future_amp: target,
            initial_amp_block: start,
            future_amp_block: stop,
        };
        let want = effective_amp(&cfg, now);
        let got = stableswap_3pool::verif_hooks::StableSwap::new(initial, target, now, start, stop).compute_amp_factor();
        cx.count("amp_grid:evaluated");
        cx.check("amp.linear_in_block_height", got == Some(want) && want >= initial.min(target) && want <= initial.max(target), || {
            format!("compute_amp_factor(initial {}, target {}, now {}, start {}, stop {}) = {:?}, linear interpolation gives {}", initial, target, now, start, stop, got, want)
        });
    });
    ev.add_grid_result("amp-factor-grid", "(initial,target,start,stop,now) in {0,1,2,10,999,1e6}^5 with start<=stop, now>=start", res, &|i| json!({"index": i}), &[7, total / 2]);
}

pub fn run(tier: &str, seed: u64) -> i32 {
    let mut ev = Evidence::new("C04", tier, seed);
    ev.assumptions = vec![
        "D is solved independently (bisection on the exact polynomial, Ann = amp*3 as in the pool) at the operation's effective amp; dust allowance 8 base units".into(),
        "amounts from a reserve-relative alphabet; histories bounded by the stated depth".into(),
    ];
    amp_grid(&mut ev);
    // every root of the tier to depth 3; thorough adds depth 4 from the 'deep' roots (two pools + the mid-ramp pool)
    let cfg = default_cfg("C04", tier, seed, 3);
    ev.add_report(explore(&scenario(tier, true), &cfg));
    if tier != "quick" && ev.violations.is_empty() {
        let cfg = default_cfg("C04", tier, seed, 4);
        ev.add_report(explore(&scenario("deep", true), &cfg));
    }
    if ev.violations.is_empty() {
        for c in ["provide:ok", "provide:first", "withdraw:ok", "swap:ok", "swap:protocol_fee>0", "probe:there_and_back", "ramp:accepted", "ramp:rejected", "amp:mid_ramp_state", "collect:nonzero"] {
            ev.require_counter(c, 1);
        }
    }
    ev.finish()
}

pub fn replay(doc: &Value) -> bool {
    if doc["kind"] == "point" {
        println!("amp grid point {}", doc["point"]);
        return true;
    }
    // roots are resolved by label; the thorough list contains every root of the other lists except the empty-pool
    // quick root, which the quick list has
    let label = doc["root_label"].as_str().unwrap_or("");
    let tier = if scenario("thorough", true).roots.iter().any(|r| r.label == label) { "thorough" } else { "quick" };
    replay_trace(&scenario(tier, true), doc)
}
