//! C02 — constant-product swap: exact price, exact fee split, totality, no free money.
//! Exhaustive enumeration of a boundary-dense grid + dense small cube on the real
//! `compute_swap` (hook) and, for a sub-grid, on the real deployed pair (Simulation query and
//! executed there-and-back swaps).

use std::panic::{catch_unwind, AssertUnwindSafe};

use cosmwasm_std::Uint128;
use serde_json::{json, Value};
use terraswap_pair::verif_hooks::compute_swap;
use white_whale_std::pool_network::asset::PairType;
use white_whale_std::pool_network::pair::{QueryMsg as PairQuery, SimulationResponse};

use crate::big::{b, fits128, isqrt, U1024};
use crate::deploy::*;
use crate::engine::{Cx, Evidence};
use crate::grid::{par_index, par_index_with};
use crate::scn_pair::{loose_belief, Kinds, PairRoot, PairScn, Probe};
use crate::world::World;

const E18: u128 = ONE18;

pub fn fee_alphabet() -> Vec<Fee3> {
    vec![
        Fee3::new(0, 0, 0),
        Fee3::new(1, 0, 0),
        Fee3::new(0, 1, 0),
        Fee3::new(0, 0, 1),
        Fee3::new(1, 1, 1),
        Fee3::new(E18 / 1000, 2 * E18 / 1000, E18 / 1000),
        Fee3::new(E18 - 1, 0, 0),
        Fee3::new(0, E18 - 1, 0),
        Fee3::new(0, 0, E18 - 1),
        Fee3::new(E18 / 3, E18 / 3, E18 / 3),
        Fee3::new(E18 / 2, E18 / 2 - 1, 0),
        Fee3::new(E18 / 2 - 1, 0, E18 / 2),
        Fee3::new(3 * E18 / 10, 3 * E18 / 10, 3 * E18 / 10),
        Fee3::new(E18 / 100, 0, E18 / 20),
    ]
}

const DECIMALS: [(u8, u8); 3] = [(6, 6), (6, 18), (18, 6)];

#[derive(Clone, Copy, Debug)]
pub struct Pt {
    pub offer_pool: u128,
    pub ask_pool: u128,
    pub offer: u128,
    pub fee: Fee3,
    pub dec: (u8, u8),
}

pub fn pt_json(p: &Pt) -> Value {
    json!({"offer_pool": p.offer_pool.to_string(), "ask_pool": p.ask_pool.to_string(), "offer": p.offer.to_string(),
           "fee": {"protocol": p.fee.protocol.to_string(), "swap": p.fee.swap.to_string(), "burn": p.fee.burn.to_string()},
           "decimals": [p.dec.0, p.dec.1]})
}
pub fn pt_from_json(v: &Value) -> Pt {
    let g = |k: &str| v[k].as_str().unwrap().parse::<u128>().unwrap();
    let f = |k: &str| v["fee"][k].as_str().unwrap().parse::<u128>().unwrap();
    Pt {
        offer_pool: g("offer_pool"),
        ask_pool: g("ask_pool"),
        offer: g("offer"),
        fee: Fee3::new(f("protocol"), f("swap"), f("burn")),
        dec: (v["decimals"][0].as_u64().unwrap() as u8, v["decimals"][1].as_u64().unwrap() as u8),
    }
}

pub struct Ref {
    pub gross: U1024,
    pub fees: [U1024; 3], // protocol, swap, burn
    pub ret: U1024,
    pub spread_ideal: U1024,
}
pub fn reference(p: &Pt) -> Ref {
    let gross = b(p.ask_pool) * b(p.offer) / (b(p.offer_pool) + b(p.offer));
    let fee = |s: u128| gross * b(s) / b(E18);
    let fees = [fee(p.fee.protocol), fee(p.fee.swap), fee(p.fee.burn)];
    let ret = gross - fees[0] - fees[1] - fees[2];
    let ideal = b(p.offer) * b(p.ask_pool) / b(p.offer_pool);
    let spread_ideal = ideal.saturating_sub(gross);
    Ref { gross, fees, ret, spread_ideal }
}

/// evaluate the real function at one point; returns Ok(result) / Err(error string) / panic string
pub fn eval_real(p: &Pt) -> Result<Result<terraswap_pair::verif_hooks::SwapComputation, String>, String> {
    let r = catch_unwind(AssertUnwindSafe(|| {
        compute_swap(
            Uint128::new(p.offer_pool),
            Uint128::new(p.ask_pool),
            Uint128::new(p.offer),
            p.fee.pool(),
            &PairType::ConstantProduct,
            p.dec.0,
            p.dec.1,
        )
    }));
    match r {
        Ok(Ok(c)) => Ok(Ok(c)),
        Ok(Err(e)) => Ok(Err(e.to_string())),
        Err(_) => Err(crate::world::LAST_PANIC.with(|p| p.borrow().clone())),
    }
}

pub fn check_point(p: &Pt, cx: &mut Cx) {
    let rf = reference(p);
    let fits = fits128(&rf.gross) && fits128(&rf.spread_ideal);
    match eval_real(p) {
        Err(panic) => {
            let sig = if b(p.offer_pool) > b(p.ask_pool) * b(E18) { "reserve-ratio>1e18" } else { "" };
            cx.count("outcome:panic");
            if fits {
                cx.check_sig("totality.no_abort_when_result_fits", sig, false, || format!("compute_swap panicked ({panic}) although gross {} and spread {} fit in 128 bits", rf.gross, rf.spread_ideal));
            }
        }
        Ok(Err(e)) => {
            cx.count("outcome:err");
            cx.check("totality.no_abort_when_result_fits", !fits, || format!("compute_swap returned Err({e}) although gross {} and spread {} fit in 128 bits", rf.gross, rf.spread_ideal));
        }
        Ok(Ok(c)) => {
            cx.count("outcome:ok");
            if !rf.fees[0].is_zero() {
                cx.count("nontrivial:protocol_fee>0");
            }
            if !rf.ret.is_zero() {
                cx.count("nontrivial:return>0");
            }
            let (ret, pf, sf, bf) = (c.return_amount.u128(), c.protocol_fee_amount.u128(), c.swap_fee_amount.u128(), c.burn_fee_amount.u128());
            cx.check("price.return_plus_fees_is_gross", b(ret) + b(pf) + b(sf) + b(bf) == rf.gross, || {
                format!("return {} + fees ({},{},{}) != floor(ask*offer/(pool+offer)) = {}", ret, pf, sf, bf, rf.gross)
            });
            cx.check("fees.each_is_floor_share_of_gross", b(pf) == rf.fees[0] && b(sf) == rf.fees[1] && b(bf) == rf.fees[2], || {
                format!("fees (protocol {}, swap {}, burn {}) != floor(share*gross) = ({},{},{})", pf, sf, bf, rf.fees[0], rf.fees[1], rf.fees[2])
            });
            cx.check("price.return_lt_ask_reserve", ret < p.ask_pool, || format!("return {} >= ask reserve {}", ret, p.ask_pool));
            // there and straight back (pure): new reserves after the swap, then swap the proceeds back
            if ret > 0 {
                let new_offer_pool = p.offer_pool.checked_add(p.offer);
                let new_ask_pool = p.ask_pool - ret - pf - bf;
                if let Some(nop) = new_offer_pool {
                    if new_ask_pool > 0 {
                        let back = Pt { offer_pool: new_ask_pool, ask_pool: nop, offer: ret, fee: p.fee, dec: (p.dec.1, p.dec.0) };
                        if let Ok(Ok(c2)) = eval_real(&back) {
                            cx.count("roundtrip:evaluated");
                            cx.check("roundtrip.no_gain", c2.return_amount.u128() <= p.offer, || {
                                format!("swap {} -> {} -> {}: got back more than was put in", p.offer, ret, c2.return_amount.u128())
                            });
                        }
                    }
                }
            }
        }
    }
}

/// The grid is described implicitly (index -> point) so that 10^8 points need no memory.
pub struct Grid {
    bv: Vec<u128>,
    fees: Vec<Fee3>,
    cube: u128,
}
impl Grid {
    pub fn new(tier: &str) -> Grid {
        Grid {
            bv: crate::grid::boundary_values_level(if tier == "quick" { 1 } else { 2 }),
            fees: fee_alphabet(),
            cube: if tier == "quick" { 48 } else { 80 },
        }
    }
    fn n_boundary(&self) -> usize {
        self.bv.len().pow(3) * self.fees.len() * DECIMALS.len()
    }
    fn n_cube(&self) -> usize {
        (self.cube as usize).pow(3) * self.fees.len()
    }
    pub fn len(&self) -> usize {
        self.n_boundary() + self.n_cube()
    }
    pub fn at(&self, mut i: usize) -> Pt {
        if i < self.n_boundary() {
            let nb = self.bv.len();
            let d = i % DECIMALS.len();
            i /= DECIMALS.len();
            let f = i % self.fees.len();
            i /= self.fees.len();
            let of = i % nb;
            i /= nb;
            let ap = i % nb;
            i /= nb;
            Pt { offer_pool: self.bv[i], ask_pool: self.bv[ap], offer: self.bv[of], fee: self.fees[f], dec: DECIMALS[d] }
        } else {
            i -= self.n_boundary();
            let n = self.cube as usize;
            let f = i % self.fees.len();
            i /= self.fees.len();
            let of = i % n;
            i /= n;
            let ap = i % n;
            i /= n;
            Pt { offer_pool: i as u128 + 1, ask_pool: ap as u128 + 1, offer: of as u128 + 1, fee: self.fees[f], dec: (6, 6) }
        }
    }
}

/// Sub-grid executed on the real deployed pair: Simulation == hook result, and an executed
/// there-and-back swap never returns more than was put in.
fn real_contract_points(tier: &str) -> Vec<Pt> {
    let vals: Vec<u128> = if tier == "quick-small" {
        vec![1001, 1_000_000, 10u128.pow(12), 10u128.pow(24), 1u128 << 100]
    } else {
        vec![1001, 1002, 999_999, 1_000_000, 10u128.pow(9), 10u128.pow(12), 10u128.pow(18), 10u128.pow(24), 10u128.pow(30), 1u128 << 100, 1u128 << 110]
    };
    let offers: Vec<u128> = if tier == "quick-small" {
        vec![1, 1000, 1_000_000, 10u128.pow(18), 1u128 << 100]
    } else {
        vec![1, 2, 999, 1000, 1001, 1_000_000, 10u128.pow(12), 10u128.pow(18), 10u128.pow(24), 1u128 << 100, 1u128 << 110]
    };
    let fees = fee_alphabet();
    let fee_idx: Vec<usize> = if tier == "quick" { vec![0, 4, 5, 12] } else { (0..fees.len()).collect() };
    let mut pts = vec![];
    for &r0 in &vals {
        for &r1 in &vals {
            if isqrt(b(r0) * b(r1)) <= b(1000) {
                continue;
            }
            for &of in &offers {
                for &fi in &fee_idx {
                    pts.push(Pt { offer_pool: r0, ask_pool: r1, offer: of, fee: fees[fi], dec: (6, 6) });
                }
            }
        }
    }
    pts
}

fn real_scn(fee: Fee3) -> (PairScn, PairRoot) {
    let root = PairRoot { label: "c02".into(), kinds: Kinds::NC, decimals: [6, 6], fees: fee, first: [0, 0], pre_swaps: false };
    (
        PairScn { property: "C02".into(), stable_amp: None, roots: vec![root.clone()], fee_alphabet: vec![], probe: Probe::None, reduced: false },
        root,
    )
}

pub fn check_real_point(p: &Pt, cx: &mut Cx, w: &mut World) {
    // fresh deployment per point: restore the empty-chain snapshot first
    let (scn, root) = real_scn(p.fee);
    *w = World::new();
    let h = scn.deploy(&root, w);
    if pair_provide(w, &h.pair, ALICE, [p.offer_pool, p.ask_pool], None, None).is_err() {
        cx.count("real:first_deposit_rejected");
        return;
    }
    cx.count("real:deployed");
    let a0 = h.pair.assets[0].clone();
    let a1 = h.pair.assets[1].clone();
    // Simulation query == hook
    let sim: Result<SimulationResponse, String> = w.query(&h.pair.addr, &PairQuery::Simulation { offer_asset: asset(&a0, p.offer) });
    let hook = eval_real(p);
    match (&sim, &hook) {
        (Ok(s), Ok(Ok(c))) => {
            cx.count("real:sim_ok");
            cx.check(
                "query_path.simulation_equals_compute_swap",
                s.return_amount == c.return_amount && s.spread_amount == c.spread_amount && s.swap_fee_amount == c.swap_fee_amount && s.protocol_fee_amount == c.protocol_fee_amount && s.burn_fee_amount == c.burn_fee_amount,
                || format!("Simulation {:?} != compute_swap {:?}", s, c),
            );
            let rf = reference(p);
            cx.check("price.return_plus_fees_is_gross", b(s.return_amount.u128()) + b(s.swap_fee_amount.u128()) + b(s.protocol_fee_amount.u128()) + b(s.burn_fee_amount.u128()) == rf.gross, || {
                format!("Simulation {:?}: return+fees != gross {}", s, rf.gross)
            });
        }
        (Err(_), Ok(Ok(c))) => cx.check("query_path.simulation_equals_compute_swap", false, || format!("Simulation failed but compute_swap gave {:?}", c)),
        (Ok(s), _) => cx.check("query_path.simulation_equals_compute_swap", false, || format!("Simulation gave {:?} but compute_swap failed", s)),
        _ => cx.count("real:sim_and_hook_both_fail"),
    }
    // no free money: bank coins that are merely spelled like the address of the pool's cw20 asset are not a pool
    // asset and buy nothing
    {
        let amt = p.offer.min(p.ask_pool / 2).max(1);
        let ub = [info_balance(w, &a0, MALLORY), info_balance(w, &a1, MALLORY)];
        if let Some(r) = crate::scn_pair::addr_coin_swap(w, &h.pair, MALLORY, 1, amt) {
            cx.count(if r.is_ok() { "real:addr_coin_offer_accepted" } else { "real:addr_coin_offer_rejected" });
            let ua = [info_balance(w, &a0, MALLORY), info_balance(w, &a1, MALLORY)];
            cx.check("no_free_money.proceeds_only_for_pool_assets", ua[0] <= ub[0] && ua[1] <= ub[1], || {
                format!("a swap offering {} bank coins spelled like the cw20 asset's address (not a pool asset) paid the sender: pool-asset balances {:?} -> {:?}", amt, ub, ua)
            });
        }
    }
    // executed there-and-back
    let bal0 = info_balance(w, &a0, BOB);
    let bal1 = info_balance(w, &a1, BOB);
    if pair_swap(w, &h.pair.addr, BOB, &a0, p.offer, loose_belief(), None, None).is_ok() {
        let got1 = info_balance(w, &a1, BOB) - bal1;
        if got1 > 0 && pair_swap(w, &h.pair.addr, BOB, &a1, got1, loose_belief(), None, None).is_ok() {
            let end0 = info_balance(w, &a0, BOB);
            cx.count("real:roundtrip_executed");
            cx.check("roundtrip.no_gain", end0 <= bal0, || format!("executed there-and-back: put in {}, proceeds {}, got back {}", p.offer, got1, end0 + p.offer - bal0));
        }
    }
    // the same quote in the state after those swaps, where protocol fees of both assets are pending: the
    // Simulation must be the formula on the reserves the pool reports (balances minus what it owes)
    if let Ok((res, _)) = pair_pool(w, &h.pair.addr) {
        for dir in 0..2usize {
            let q = Pt { offer_pool: res[dir], ask_pool: res[1 - dir], offer: p.offer, fee: p.fee, dec: p.dec };
            let offer_info = if dir == 0 { &a0 } else { &a1 };
            let sim: Result<SimulationResponse, String> = w.query(&h.pair.addr, &PairQuery::Simulation { offer_asset: asset(offer_info, p.offer) });
            if let (Ok(s), Ok(Ok(c))) = (&sim, &eval_real(&q)) {
                cx.count("real:sim_after_swaps_ok");
                cx.check(
                    "query_path.simulation_equals_compute_swap",
                    s.return_amount == c.return_amount && s.spread_amount == c.spread_amount && s.swap_fee_amount == c.swap_fee_amount && s.protocol_fee_amount == c.protocol_fee_amount && s.burn_fee_amount == c.burn_fee_amount,
                    || format!("after swaps (pending protocol fees), reported reserves {:?}, offer {} of asset {}: Simulation {:?} != compute_swap {:?}", res, p.offer, dir, s, c),
                );
            }
        }
    }
    // a fee update in the middle of the pool's life: every later quote uses exactly the new triple
    {
        let fees = fee_alphabet();
        let idx = fees.iter().position(|f| f.protocol == p.fee.protocol && f.swap == p.fee.swap && f.burn == p.fee.burn).unwrap_or(0);
        for step in [1usize, 5] {
            let f2 = fees[(idx + step) % fees.len()];
            let upd = w.exec(
                OWNER,
                &h.hub.factory,
                &white_whale_std::pool_network::factory::ExecuteMsg::UpdatePairConfig { pair_addr: h.pair.addr.clone(), owner: None, fee_collector_addr: None, pool_fees: Some(f2.pool()), feature_toggle: None },
                &[],
            );
            if upd.is_err() {
                cx.count("real:fee_update_rejected");
                continue;
            }
            if let Ok((res, _)) = pair_pool(w, &h.pair.addr) {
                let q = Pt { offer_pool: res[0], ask_pool: res[1], offer: p.offer, fee: f2, dec: p.dec };
                let sim: Result<SimulationResponse, String> = w.query(&h.pair.addr, &PairQuery::Simulation { offer_asset: asset(&a0, p.offer) });
                match (&sim, &eval_real(&q)) {
                    (Ok(s), Ok(Ok(c))) => {
                        cx.count("real:sim_after_fee_update_ok");
                        cx.check(
                            "fees.each_is_floor_share_times_gross",
                            s.return_amount == c.return_amount && s.swap_fee_amount == c.swap_fee_amount && s.protocol_fee_amount == c.protocol_fee_amount && s.burn_fee_amount == c.burn_fee_amount,
                            || format!("after updating the pool fees to {:?}: Simulation {:?} != compute_swap with the new fees {:?}", f2, s, c),
                        );
                    }
                    (Ok(s), _) => cx.check("fees.each_is_floor_share_times_gross", false, || format!("after updating the pool fees to {:?}: Simulation gave {:?} but compute_swap with the new fees fails", f2, s)),
                    (Err(e), Ok(Ok(c))) => cx.check("fees.each_is_floor_share_times_gross", false, || format!("after updating the pool fees to {:?}: Simulation failed ({}) but compute_swap with the new fees gives {:?}", f2, e, c)),
                    _ => {}
                }
            }
        }
    }
}

pub fn run(tier: &str, seed: u64) -> i32 {
    let mut ev = Evidence::new("C02", tier, seed);
    ev.assumptions = vec![
        "grid = boundary values (powers of 10 and 2, +-1, up to 2^128-1)^3 x 14 fee triples x 3 decimal settings, plus dense cube {1..N}^3; values between grid points are not covered".into(),
        "totality clause: an abort is a violation only when floor(ask*offer/(pool+offer)) and the ideal-price spread floor(offer*ask/pool)-gross both fit in 128 bits".into(),
    ];
    let pts = Grid::new(tier);
    let res = par_index(pts.len(), 3, |i, cx| check_point(&pts.at(i), cx));
    let n = pts.len();
    ev.add_grid_result(
        "compute_swap-grid",
        "every (offer_pool, ask_pool, offer, fee triple, decimals) of the boundary grid and the dense cube; non-trivial = return > 0",
        res,
        &|i| pt_json(&pts.at(i)),
        &[0, n / 3, n / 2, n - 1],
    );
    let rp = real_contract_points(tier);
    let res2 = par_index_with(rp.len(), 3, World::new, |i, cx, w| check_real_point(&rp[i], cx, w));
    let m = rp.len();
    ev.add_grid_result(
        "deployed-pair-subgrid",
        "reserves x offers x fees on the real deployed pair: Simulation == compute_swap, executed there-and-back never gains",
        res2,
        &|i| {
            let mut v = pt_json(&rp[i]);
            v["real_contract"] = json!(true);
            v
        },
        &[0, m / 2, m - 1],
    );
    ev.validated = ev.counters.get("real:sim_ok").cloned().unwrap_or(0);
    for c in ["outcome:ok", "nontrivial:protocol_fee>0", "roundtrip:evaluated", "real:sim_ok", "real:roundtrip_executed", "real:sim_after_swaps_ok", "real:sim_after_fee_update_ok"] {
        ev.require_counter(c, 100);
    }
    ev.finish()
}

pub fn replay(doc: &Value) -> bool {
    let p = pt_from_json(&doc["point"]);
    let mut cx = Cx { verbose: true, ..Default::default() };
    println!("point {}", pt_json(&p));
    if doc["point"]["real_contract"].as_bool().unwrap_or(false) {
        let mut w = World::new();
        check_real_point(&p, &mut cx, &mut w);
    } else {
        println!("compute_swap -> {:?}", eval_real(&p));
        let rf = reference(&p);
        println!("reference: gross {} fees {:?} return {} ideal spread {}", rf.gross, rf.fees, rf.ret, rf.spread_ideal);
        check_point(&p, &mut cx);
    }
    let want = doc["oracle"].as_str().unwrap_or("");
    let mut rep = false;
    for v in &cx.violations {
        println!("  !! {} [{}]: {}", v.oracle, v.sig, v.detail);
        if v.oracle == want {
            rep = true;
        }
    }
    println!("reproduced={rep}");
    rep
}
