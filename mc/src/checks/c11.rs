//! C11 — incentive contract: staked LP is held one-for-one and returned to its owner.
use serde_json::Value;

use crate::engine::{default_cfg, explore, replay_trace, Evidence};
use crate::scn_incentive::{default_users, FeeKind, IncRoot, IncScn};

pub fn scenario(tier: &str) -> IncScn {
    let mut roots = vec![
        IncRoot { label: "cw20-lp(real pair)/fresh".into(), lp_native: false, fee_kind: FeeKind::NativeDiff, prefix: 0, standing_allowance: false },
        IncRoot { label: "native-lp/positions".into(), lp_native: true, fee_kind: FeeKind::NativeDiff, prefix: 1, standing_allowance: false },
        IncRoot { label: "native-lp/reward-is-lp/flow".into(), lp_native: true, fee_kind: FeeKind::RewardIsLp, prefix: 2, standing_allowance: false },
    ];
    roots.push(IncRoot { label: "cw20-lp(real pair)/standing-allowance".into(), lp_native: false, fee_kind: FeeKind::NativeDiff, prefix: 0, standing_allowance: true });
    // the pool behind the LP token pairs a cw20 token with a bank coin spelled exactly like the token's contract address
    roots.push(IncRoot { label: "cw20-lp(real pair: token + coin with twin-ids)/fresh".into(), lp_native: false, fee_kind: FeeKind::NativeDiff, prefix: 0, standing_allowance: false });
    // amounts of an 18-decimals LP asset: every position exceeds 2^64 base units
    roots.push(IncRoot { label: "native-lp/positions @1e18-units".into(), lp_native: true, fee_kind: FeeKind::NativeDiff, prefix: 1, standing_allowance: false });
    if tier != "quick" {
        roots.push(IncRoot { label: "cw20-lp(real pair)/reward-is-lp/flow".into(), lp_native: false, fee_kind: FeeKind::RewardIsLp, prefix: 2, standing_allowance: false });
        roots.push(IncRoot { label: "cw20-lp(real pair)/positions".into(), lp_native: false, fee_kind: FeeKind::NativeDiff, prefix: 1, standing_allowance: false });
    }
    IncScn { property: "C11".into(), roots, users: default_users(), reduced: tier == "quick" }
}

pub fn run(tier: &str, seed: u64) -> i32 {
    let mut ev = Evidence::new("C11", tier, seed);
    ev.assumptions = vec![
        "epochs come from the repository's fee-distributor-mock (as in the repository's own incentive tests)".into(),
        "amount alphabet {1,7,1000}, three unbonding durations (min, mid, max); histories bounded by the stated depth".into(),
    ];
    let depth = if tier == "quick" { 4 } else { 5 };
    let cfg = default_cfg("C11", tier, seed, depth);
    ev.add_report(explore(&scenario(tier), &cfg));
    if ev.violations.is_empty() {
        for c in ["open:ok", "expand:ok", "close:ok", "withdraw:paid", "helper:ok", "position:for_receiver", "badopen:attempt", "claim:ok"] {
            ev.require_counter(c, 1);
        }
    }
    ev.finish()
}

pub fn replay(doc: &Value) -> bool {
    let tier = doc["tier"].as_str().unwrap_or("quick");
    replay_trace(&scenario(tier), doc)
}
