pub mod c01;
