//! C16 — only the owner (or the contract itself) can perform privileged operations.
//! Fully enumerated matrix: privileged ExecuteMsg variant x caller role x {before, after
//! ownership transfer} on one deployment holding every contract of the hub.

use cosmwasm_std::{to_json_binary, Addr, Binary, Coin, CosmosMsg, Decimal, Uint128, Uint64, WasmMsg};
use serde_json::{json, Value};
use white_whale_std::pool_network::asset::AssetInfo;
use white_whale_std::pool_network::router::{SwapOperation, SwapRoute};

use crate::deploy::*;
use crate::engine::{Cx, Evidence};
use crate::fullhub::{deploy_full, FullHub, FH_FEES};
use crate::grid::par_index_with;
use crate::helpers::AdvMsg;
use crate::world::{coin, kv_diff, kv_equal, Snapshot, World};

const NEWOWNER: &str = "newowner";

#[derive(Clone)]
pub struct Entry {
    pub label: String,
    pub contract: String,
    pub msg: Binary,
    pub funds: Vec<Coin>,
    /// who may call it: "owner" (the configured owner at that time) or explicit addresses
    pub allowed: Vec<String>,
    /// known finding class (empty = none)
    pub note: &'static str,
}

fn e<T: serde::Serialize>(label: &str, contract: &str, msg: &T, allowed: &[&str]) -> Entry {
    Entry { label: label.to_string(), contract: contract.to_string(), msg: to_json_binary(msg).unwrap(), funds: vec![], allowed: allowed.iter().map(|s| s.to_string()).collect(), note: "" }
}

/// One entry per optional field of a configuration message: the message with only that field set (and one with
/// nothing set). Authorisation must not depend on which fields a message carries. `path` leads from the variant's
/// body to the object holding the optional fields (vault factory: `params`).
fn sweep<T: serde::Serialize>(v: &mut Vec<Entry>, label: &str, contract: &str, all_none: &T, path: &[&str], fields: &[(&str, Value)], allowed: &[&str]) {
    let base = serde_json::to_value(all_none).unwrap();
    let variant = base.as_object().expect("enum variant object").keys().next().unwrap().clone();
    let mk = |field: Option<(&str, &Value)>| -> Entry {
        let mut m = base.clone();
        let mut obj = m.get_mut(&variant).unwrap();
        for p in path {
            obj = obj.get_mut(*p).unwrap();
        }
        let tag = match field {
            Some((f, val)) => {
                assert!(obj.get(f).map(|x| x.is_null()).unwrap_or(false), "{label}: field {f} is not an unset option of the base message");
                obj[f] = val.clone();
                if val.as_str() == Some("$CALLER") { format!("[only {f}=caller]") } else { format!("[only {f}]") }
            }
            None => "[nothing set]".to_string(),
        };
        Entry { label: format!("{label}{tag}"), contract: contract.to_string(), msg: Binary::from(serde_json::to_vec(&m).unwrap()), funds: vec![], allowed: allowed.iter().map(|s| s.to_string()).collect(), note: "" }
    };
    v.push(mk(None));
    for (f, val) in fields {
        v.push(mk(Some((f, val))));
    }
}

pub struct Setup {
    pub h: FullHub,
    pub snap: Snapshot,
    pub flow_creator: String,
    pub hookrx2: String,
}

fn route(h: &FullHub) -> SwapRoute {
    SwapRoute {
        offer_asset_info: native("uusdc"),
        ask_asset_info: native("uwhale"),
        swap_operations: vec![SwapOperation::TerraSwap { offer_asset_info: native("uusdc"), ask_asset_info: native("uwhale") }],
    }
    .clone_with(h)
}
trait CloneWith {
    fn clone_with(self, h: &FullHub) -> Self;
}
impl CloneWith for SwapRoute {
    fn clone_with(self, _h: &FullHub) -> Self {
        self
    }
}

pub fn build(after_transfer: bool, combined: bool) -> Setup {
    let mut w = World::new();
    let h = deploy_full(&mut w);
    // things the privileged payloads need
    let hookrx2 = w.instantiate(w.codes.hook_receiver, OWNER, &cosmwasm_std::Empty {}, &[], "hookrx2", None).unwrap();
    w.exec(OWNER, &h.epoch_manager, &white_whale_std::epoch_manager::epoch_manager::ExecuteMsg::AddHook { contract_addr: hookrx2.clone() }, &[]).unwrap();
    w.exec(OWNER, &h.fee.pool_router, &white_whale_std::pool_network::router::ExecuteMsg::AddSwapRoutes { swap_routes: vec![route(&h)] }, &[]).unwrap();
    w.mint_native(&h.fee.pool_router, 1000, "uusdc");
    w.mint_native(&h.vault_router, 1010, "uwhale");
    // a flow opened by bob (epoch 1 exists)
    w.exec(
        BOB,
        &h.incentive,
        &white_whale_std::pool_network::incentive::ExecuteMsg::OpenFlow { start_epoch: None, end_epoch: Some(10), curve: None, flow_asset: asset(&native("ureward"), 5000), flow_label: Some("rewards".to_string()) },
        &[coin(1000, "ufee"), coin(5000, "ureward")],
    )
    .expect("flow");
    // a newer flow by somebody else carrying the same label (labels are not unique): closing "by label" must still
    // be decided by who created the flow that is actually closed
    w.exec(
        MALLORY,
        &h.incentive,
        &white_whale_std::pool_network::incentive::ExecuteMsg::OpenFlow { start_epoch: None, end_epoch: Some(10), curve: None, flow_asset: asset(&native("ureward"), 7000), flow_label: Some("rewards".to_string()) },
        &[coin(1000, "ufee"), coin(7000, "ureward")],
    )
    .expect("second flow with the same label");
    if after_transfer && combined {
        // the ownership changes hands in messages that also set every other field (to the values currently in force, or to
        // other valid ones): a transfer must not depend on travelling alone
        use white_whale_std::pool_network::pair::FeatureToggle as PT;
        use white_whale_std::pool_network::trio::{FeatureToggle as TT, RampAmp};
        let no = Some(NEWOWNER.to_string());
        let height = w.snapshot().height;
        let coll = Some(h.fee.collector.clone());
        w.exec(OWNER, &h.fee.pool_factory, &white_whale_std::pool_network::factory::ExecuteMsg::UpdatePairConfig { pair_addr: h.pair.addr.clone(), owner: no.clone(), fee_collector_addr: coll.clone(), pool_fees: Some(FH_FEES.pool()), feature_toggle: Some(PT { withdrawals_enabled: true, deposits_enabled: true, swaps_enabled: true }) }, &[]).expect("combined pair");
        w.exec(OWNER, &h.fee.pool_factory, &white_whale_std::pool_network::factory::ExecuteMsg::UpdateTrioConfig { trio_addr: h.trio.addr.clone(), owner: no.clone(), fee_collector_addr: coll.clone(), pool_fees: Some(FH_FEES.trio()), feature_toggle: Some(TT { withdrawals_enabled: true, deposits_enabled: true, swaps_enabled: true }), amp_factor: Some(RampAmp { future_a: 150, future_block: height + 15_000 }) }, &[]).expect("combined trio");
        w.exec(
            OWNER,
            &h.fee.vault_factory,
            &white_whale_std::vault_network::vault_factory::ExecuteMsg::UpdateVaultConfig {
                vault_addr: h.vault.vault.clone(),
                params: white_whale_std::vault_network::vault::UpdateConfigParams { flash_loan_enabled: Some(true), deposit_enabled: Some(true), withdraw_enabled: Some(true), new_owner: no.clone(), new_vault_fees: Some(FH_FEES.vault()), new_fee_collector_addr: coll.clone() },
            },
            &[],
        )
        .expect("combined vault");
        w.exec(OWNER, &h.fee.pool_factory, &white_whale_std::pool_network::factory::ExecuteMsg::UpdateConfig { owner: no.clone(), fee_collector_addr: coll.clone(), token_code_id: Some(w.codes.token), pair_code_id: Some(w.codes.pair), trio_code_id: Some(w.codes.trio) }, &[]).expect("combined pool factory");
        w.exec(OWNER, &h.fee.vault_factory, &white_whale_std::vault_network::vault_factory::ExecuteMsg::UpdateConfig { owner: no.clone(), fee_collector_addr: coll.clone(), vault_id: Some(w.codes.vault), token_id: Some(w.codes.token) }, &[]).expect("combined vault factory");
        let ic: white_whale_std::pool_network::incentive_factory::Config = w.query(&h.ifactory, &white_whale_std::pool_network::incentive_factory::QueryMsg::Config {}).unwrap();
        w.exec(
            OWNER,
            &h.ifactory,
            &white_whale_std::pool_network::incentive_factory::ExecuteMsg::UpdateConfig {
                owner: no.clone(),
                fee_collector_addr: Some(ic.fee_collector_addr.to_string()),
                fee_distributor_addr: Some(ic.fee_distributor_addr.to_string()),
                create_flow_fee: Some(ic.create_flow_fee.clone()),
                max_concurrent_flows: Some(ic.max_concurrent_flows),
                incentive_code_id: Some(ic.incentive_code_id),
                max_flow_start_time_buffer: Some(ic.max_flow_epoch_buffer),
                min_unbonding_duration: Some(ic.min_unbonding_duration),
                max_unbonding_duration: Some(ic.max_unbonding_duration),
            },
            &[],
        )
        .expect("combined incentive factory");
        let cc: white_whale_std::fee_collector::Config = w.query(&h.fee.collector, &white_whale_std::fee_collector::QueryMsg::Config {}).unwrap();
        w.exec(
            OWNER,
            &h.fee.collector,
            &white_whale_std::fee_collector::ExecuteMsg::UpdateConfig {
                owner: no.clone(),
                pool_router: Some(cc.pool_router.to_string()),
                fee_distributor: Some(cc.fee_distributor.to_string()),
                pool_factory: Some(cc.pool_factory.to_string()),
                vault_factory: Some(cc.vault_factory.to_string()),
                take_rate: Some(cc.take_rate),
                take_rate_dao_address: Some(if cc.take_rate_dao_address.as_str().is_empty() { "daotreasury".to_string() } else { cc.take_rate_dao_address.to_string() }),
                is_take_rate_active: Some(cc.is_take_rate_active),
            },
            &[],
        )
        .expect("combined collector");
        let dc: white_whale_std::fee_distributor::Config = w.query(&h.fee.distributor, &white_whale_std::fee_distributor::QueryMsg::Config {}).unwrap();
        w.exec(
            OWNER,
            &h.fee.distributor,
            &white_whale_std::fee_distributor::ExecuteMsg::UpdateConfig {
                owner: no.clone(),
                bonding_contract_addr: Some(dc.bonding_contract_addr.to_string()),
                fee_collector_addr: Some(dc.fee_collector_addr.to_string()),
                grace_period: Some(dc.grace_period),
                distribution_asset: Some(dc.distribution_asset.clone()),
                epoch_config: Some(dc.epoch_config.clone()),
            },
            &[],
        )
        .expect("combined distributor");
        let lc: white_whale_std::whale_lair::Config = w.query(&h.fee.lair, &white_whale_std::whale_lair::QueryMsg::Config {}).unwrap();
        w.exec(OWNER, &h.fee.lair, &white_whale_std::whale_lair::ExecuteMsg::UpdateConfig { owner: no.clone(), unbonding_period: Some(lc.unbonding_period), growth_rate: Some(lc.growth_rate), fee_distributor_addr: Some(lc.fee_distributor_addr.to_string()) }, &[]).expect("combined lair");
        w.exec(OWNER, &h.vault_router, &white_whale_std::vault_network::vault_router::ExecuteMsg::UpdateConfig { owner: no.clone(), vault_factory_addr: Some(h.fee.vault_factory.clone()) }, &[]).expect("combined vault router");
        w.exec(OWNER, &h.helper, &white_whale_std::pool_network::frontend_helper::ExecuteMsg::UpdateConfig { incentive_factory_addr: Some(h.ifactory.clone()), owner: no.clone() }, &[]).expect("combined helper");
        w.exec(
            OWNER,
            &h.epoch_manager,
            &white_whale_std::epoch_manager::epoch_manager::ExecuteMsg::UpdateConfig { owner: no.clone(), epoch_config: Some(white_whale_std::epoch_manager::epoch_manager::EpochConfig { duration: Uint64::new(crate::scn_lair::DAY_NS), genesis_epoch: Uint64::new(h.genesis_ns) }) },
            &[],
        )
        .expect("combined epoch manager");
        w.exec_cosmos(OWNER, CosmosMsg::Wasm(WasmMsg::UpdateAdmin { contract_addr: h.fee.pool_router.clone(), admin: NEWOWNER.to_string() })).unwrap();
    } else if after_transfer {
        let no = Some(NEWOWNER.to_string());
        w.exec(OWNER, &h.fee.pool_factory, &white_whale_std::pool_network::factory::ExecuteMsg::UpdatePairConfig { pair_addr: h.pair.addr.clone(), owner: no.clone(), fee_collector_addr: None, pool_fees: None, feature_toggle: None }, &[]).unwrap();
        w.exec(OWNER, &h.fee.pool_factory, &white_whale_std::pool_network::factory::ExecuteMsg::UpdateTrioConfig { trio_addr: h.trio.addr.clone(), owner: no.clone(), fee_collector_addr: None, pool_fees: None, feature_toggle: None, amp_factor: None }, &[]).unwrap();
        w.exec(
            OWNER,
            &h.fee.vault_factory,
            &white_whale_std::vault_network::vault_factory::ExecuteMsg::UpdateVaultConfig {
                vault_addr: h.vault.vault.clone(),
                params: white_whale_std::vault_network::vault::UpdateConfigParams { flash_loan_enabled: None, deposit_enabled: None, withdraw_enabled: None, new_owner: no.clone(), new_vault_fees: None, new_fee_collector_addr: None },
            },
            &[],
        )
        .unwrap();
        w.exec(OWNER, &h.fee.pool_factory, &white_whale_std::pool_network::factory::ExecuteMsg::UpdateConfig { owner: no.clone(), fee_collector_addr: None, token_code_id: None, pair_code_id: None, trio_code_id: None }, &[]).unwrap();
        w.exec(OWNER, &h.fee.vault_factory, &white_whale_std::vault_network::vault_factory::ExecuteMsg::UpdateConfig { owner: no.clone(), fee_collector_addr: None, vault_id: None, token_id: None }, &[]).unwrap();
        w.exec(
            OWNER,
            &h.ifactory,
            &white_whale_std::pool_network::incentive_factory::ExecuteMsg::UpdateConfig {
                owner: no.clone(),
                fee_collector_addr: None,
                fee_distributor_addr: None,
                create_flow_fee: None,
                max_concurrent_flows: None,
                incentive_code_id: None,
                max_flow_start_time_buffer: None,
                min_unbonding_duration: None,
                max_unbonding_duration: None,
            },
            &[],
        )
        .unwrap();
        w.exec(OWNER, &h.fee.collector, &white_whale_std::fee_collector::ExecuteMsg::UpdateConfig { owner: no.clone(), pool_router: None, fee_distributor: None, pool_factory: None, vault_factory: None, take_rate: None, take_rate_dao_address: None, is_take_rate_active: None }, &[]).unwrap();
        w.exec(OWNER, &h.fee.distributor, &white_whale_std::fee_distributor::ExecuteMsg::UpdateConfig { owner: no.clone(), bonding_contract_addr: None, fee_collector_addr: None, grace_period: None, distribution_asset: None, epoch_config: None }, &[]).unwrap();
        w.exec(OWNER, &h.fee.lair, &white_whale_std::whale_lair::ExecuteMsg::UpdateConfig { owner: no.clone(), unbonding_period: None, growth_rate: None, fee_distributor_addr: None }, &[]).unwrap();
        w.exec(OWNER, &h.vault_router, &white_whale_std::vault_network::vault_router::ExecuteMsg::UpdateConfig { owner: no.clone(), vault_factory_addr: None }, &[]).unwrap();
        w.exec(OWNER, &h.helper, &white_whale_std::pool_network::frontend_helper::ExecuteMsg::UpdateConfig { incentive_factory_addr: None, owner: no.clone() }, &[]).unwrap();
        w.exec(OWNER, &h.epoch_manager, &white_whale_std::epoch_manager::epoch_manager::ExecuteMsg::UpdateConfig { owner: no.clone(), epoch_config: None }, &[]).unwrap();
        w.exec_cosmos(OWNER, CosmosMsg::Wasm(WasmMsg::UpdateAdmin { contract_addr: h.fee.pool_router.clone(), admin: NEWOWNER.to_string() })).unwrap();
    }
    let snap = w.snapshot();
    Setup { h, snap, flow_creator: BOB.to_string(), hookrx2 }
}

pub fn entries(s: &Setup, after_transfer: bool) -> Vec<Entry> {
    let h = &s.h;
    use white_whale_std::pool_network::factory::ExecuteMsg as PF;
    use white_whale_std::vault_network::vault::UpdateConfigParams;
    use white_whale_std::vault_network::vault_factory::ExecuteMsg as VF;
    let own = "owner";
    // children are owned by their factory before the transfer and by NEWOWNER after it
    let child_owner_pair: Vec<&str> = if after_transfer { vec![NEWOWNER] } else { vec![h.fee.pool_factory.as_str()] };
    let child_owner_vault: Vec<&str> = if after_transfer { vec![NEWOWNER] } else { vec![h.fee.vault_factory.as_str()] };
    let mut v = vec![];
    // ---- pool factory
    let pf = &h.fee.pool_factory;
    v.push(e("pool_factory.UpdateConfig", pf, &PF::UpdateConfig { owner: None, fee_collector_addr: None, token_code_id: Some(1), pair_code_id: None, trio_code_id: None }, &[own]));
    if !after_transfer {
        // (after the transfer the factory no longer owns its children, so the mediated updates fail for everyone)
        v.push(e("pool_factory.UpdatePairConfig", pf, &PF::UpdatePairConfig { pair_addr: h.pair.addr.clone(), owner: None, fee_collector_addr: None, pool_fees: Some(FH_FEES.pool()), feature_toggle: None }, &[own]));
        v.push(e("pool_factory.UpdateTrioConfig", pf, &PF::UpdateTrioConfig { trio_addr: h.trio.addr.clone(), owner: None, fee_collector_addr: None, pool_fees: Some(FH_FEES.trio()), feature_toggle: None, amp_factor: None }, &[own]));
    }
    v.push(e("pool_factory.CreatePair", pf, &PF::CreatePair { asset_infos: [native("uluna"), native("uwhale")], pool_fees: FH_FEES.pool(), pair_type: white_whale_std::pool_network::asset::PairType::ConstantProduct, token_factory_lp: false }, &[own]));
    v.push(e("pool_factory.CreateTrio", pf, &PF::CreateTrio { asset_infos: [native("uluna"), native("uwhale"), native("uusdc")], pool_fees: FH_FEES.trio(), amp_factor: 10, token_factory_lp: false }, &[own]));
    v.push(e("pool_factory.AddNativeTokenDecimals", pf, &PF::AddNativeTokenDecimals { denom: "unew".into(), decimals: 6 }, &[own]));
    v.push(e("pool_factory.MigratePair", pf, &PF::MigratePair { contract: h.pair.addr.clone(), code_id: Some(2) }, &[own]));
    v.push(e("pool_factory.MigrateTrio", pf, &PF::MigrateTrio { contract: h.trio.addr.clone(), code_id: Some(3) }, &[own]));
    v.push(e("pool_factory.RemovePair", pf, &PF::RemovePair { asset_infos: [native("uusdc"), native("uwhale")] }, &[own]));
    v.push(e("pool_factory.RemoveTrio", pf, &PF::RemoveTrio { asset_infos: [native("uaaa"), native("ubbb"), token(&h.cw20)] }, &[own]));
    // ---- children of the pool factory
    v.push(e("pair.UpdateConfig", &h.pair.addr, &white_whale_std::pool_network::pair::ExecuteMsg::UpdateConfig { owner: None, fee_collector_addr: None, pool_fees: Some(FH_FEES.pool()), feature_toggle: None }, &child_owner_pair));
    v.push(e("trio.UpdateConfig", &h.trio.addr, &white_whale_std::pool_network::trio::ExecuteMsg::UpdateConfig { owner: None, fee_collector_addr: None, pool_fees: Some(FH_FEES.trio()), feature_toggle: None, amp_factor: None }, &child_owner_pair));
    v.push(e("lp_token.Mint", &h.pair.lp, &cw20::Cw20ExecuteMsg::Mint { recipient: MALLORY.into(), amount: Uint128::new(1) }, &[h.pair.addr.as_str()]));
    // ---- pool router
    let r = &h.fee.pool_router;
    v.push(e("router.AddSwapRoutes", r, &white_whale_std::pool_network::router::ExecuteMsg::AddSwapRoutes { swap_routes: vec![route(h)] }, &[own]));
    v.push(e("router.RemoveSwapRoutes", r, &white_whale_std::pool_network::router::ExecuteMsg::RemoveSwapRoutes { swap_routes: vec![route(h)] }, &[own]));
    v.push(e(
        "router.ExecuteSwapOperation",
        r,
        &white_whale_std::pool_network::router::ExecuteMsg::ExecuteSwapOperation { operation: SwapOperation::TerraSwap { offer_asset_info: native("uusdc"), ask_asset_info: native("uwhale") }, to: Some(ALICE.into()), max_spread: None },
        &[r.as_str()],
    ));
    let mut amr = e(
        "router.AssertMinimumReceive",
        r,
        &white_whale_std::pool_network::router::ExecuteMsg::AssertMinimumReceive { asset_info: native("uwhale"), prev_balance: Uint128::zero(), minimum_receive: Uint128::zero(), receiver: ALICE.into() },
        &[r.as_str()],
    );
    amr.note = "assert-minimum-receive-open";
    v.push(amr);
    // ---- vault factory and vault
    let vf = &h.fee.vault_factory;
    v.push(e("vault_factory.CreateVault", vf, &VF::CreateVault { asset_info: native("uusdc"), fees: FH_FEES.vault(), token_factory_lp: false }, &[own]));
    let params = UpdateConfigParams { flash_loan_enabled: Some(true), deposit_enabled: None, withdraw_enabled: None, new_owner: None, new_vault_fees: None, new_fee_collector_addr: None };
    if !after_transfer {
        v.push(e("vault_factory.UpdateVaultConfig", vf, &VF::UpdateVaultConfig { vault_addr: h.vault.vault.clone(), params: params.clone() }, &[own]));
    }
    v.push(e("vault_factory.MigrateVaults", vf, &VF::MigrateVaults { vault_addr: Some(h.vault.vault.clone()), vault_code_id: 6 }, &[own]));
    v.push(e("vault_factory.RemoveVault", vf, &VF::RemoveVault { asset_info: native("uwhale") }, &[own]));
    v.push(e("vault_factory.UpdateConfig", vf, &VF::UpdateConfig { owner: None, fee_collector_addr: None, vault_id: None, token_id: Some(1) }, &[own]));
    v.push(e("vault.UpdateConfig", &h.vault.vault, &white_whale_std::vault_network::vault::ExecuteMsg::UpdateConfig(params), &child_owner_vault));
    v.push(e(
        "vault.Callback(AfterTrade)",
        &h.vault.vault,
        &white_whale_std::vault_network::vault::ExecuteMsg::Callback(white_whale_std::vault_network::vault::CallbackMsg::AfterTrade { old_balance: Uint128::zero(), loan_amount: Uint128::zero() }),
        &[h.vault.vault.as_str()],
    ));
    v.push(e(
        "vault.Callback(AfterTrade)[from inside an open loan]",
        &h.vault.vault,
        &white_whale_std::vault_network::vault::ExecuteMsg::Callback(white_whale_std::vault_network::vault::CallbackMsg::AfterTrade { old_balance: Uint128::zero(), loan_amount: Uint128::zero() }),
        &[],
    ));
    // ---- vault router
    let vr = &h.vault_router;
    v.push(e("vault_router.UpdateConfig", vr, &white_whale_std::vault_network::vault_router::ExecuteMsg::UpdateConfig { owner: None, vault_factory_addr: Some(vf.clone()) }, &[own]));
    let loaned = vec![(h.vault.vault.clone(), asset(&native("uwhale"), 1000))];
    let mut nl = e(
        "vault_router.NextLoan",
        vr,
        &white_whale_std::vault_network::vault_router::ExecuteMsg::NextLoan {
            initiator: Addr::unchecked(ALICE),
            source_vault: h.vault.vault.clone(),
            source_vault_asset_info: native("uwhale"),
            payload: vec![],
            to_loan: vec![],
            loaned_assets: loaned.clone(),
        },
        &[h.vault.vault.as_str()],
    );
    nl.funds = vec![coin(1000, "uwhale")];
    v.push(nl);
    // the same callback where the caller names itself as the source vault ("$CALLER" is replaced by the
    // sender's address): only for the registered vault do sender, claimed source and factory entry agree
    let mut nl2 = e(
        "vault_router.NextLoan[source_vault=caller]",
        vr,
        &white_whale_std::vault_network::vault_router::ExecuteMsg::NextLoan {
            initiator: Addr::unchecked(ALICE),
            source_vault: "$CALLER".to_string(),
            source_vault_asset_info: native("uwhale"),
            payload: vec![],
            to_loan: vec![],
            loaned_assets: loaned.clone(),
        },
        &[h.vault.vault.as_str()],
    );
    nl2.funds = vec![coin(1000, "uwhale")];
    v.push(nl2);
    v.push(e(
        "vault_router.NextLoan[source_vault=caller,nothing-loaned]",
        vr,
        &white_whale_std::vault_network::vault_router::ExecuteMsg::NextLoan {
            initiator: Addr::unchecked(ALICE),
            source_vault: "$CALLER".to_string(),
            source_vault_asset_info: native("uwhale"),
            payload: vec![],
            to_loan: vec![],
            loaned_assets: vec![],
        },
        &[h.vault.vault.as_str()],
    ));
    v.push(e("vault_router.CompleteLoan", vr, &white_whale_std::vault_network::vault_router::ExecuteMsg::CompleteLoan { initiator: Addr::unchecked(ALICE), loaned_assets: loaned }, &[vr.as_str()]));
    // ---- fee collector / distributor / lair
    v.push(e(
        "fee_collector.UpdateConfig",
        &h.fee.collector,
        &white_whale_std::fee_collector::ExecuteMsg::UpdateConfig { owner: None, pool_router: None, fee_distributor: None, pool_factory: None, vault_factory: None, take_rate: Some(Decimal::percent(1)), take_rate_dao_address: None, is_take_rate_active: None },
        &[own],
    ));
    v.push(e(
        "fee_collector.ForwardFees",
        &h.fee.collector,
        &white_whale_std::fee_collector::ExecuteMsg::ForwardFees { epoch: white_whale_std::fee_distributor::Epoch { id: Uint64::new(9), ..Default::default() }, forward_fees_as: native("uwhale") },
        &[h.fee.distributor.as_str()],
    ));
    v.push(e(
        "fee_distributor.UpdateConfig",
        &h.fee.distributor,
        &white_whale_std::fee_distributor::ExecuteMsg::UpdateConfig { owner: None, bonding_contract_addr: None, fee_collector_addr: None, grace_period: Some(Uint64::new(3)), distribution_asset: None, epoch_config: None },
        &[own],
    ));
    v.push(e("whale_lair.UpdateConfig", &h.fee.lair, &white_whale_std::whale_lair::ExecuteMsg::UpdateConfig { owner: None, unbonding_period: Some(Uint64::new(1_000_000_000)), growth_rate: None, fee_distributor_addr: None }, &[own]));
    // ---- incentives
    use white_whale_std::pool_network::incentive_factory::ExecuteMsg as IF;
    v.push(e("incentive_factory.CreateIncentive", &h.ifactory, &IF::CreateIncentive { lp_asset: native("ulpx") }, &[own]));
    v.push(e(
        "incentive_factory.UpdateConfig",
        &h.ifactory,
        &IF::UpdateConfig { owner: None, fee_collector_addr: None, fee_distributor_addr: None, create_flow_fee: None, max_concurrent_flows: Some(4), incentive_code_id: None, max_flow_start_time_buffer: None, min_unbonding_duration: None, max_unbonding_duration: None },
        &[own],
    ));
    v.push(e("incentive_factory.MigrateIncentives", &h.ifactory, &IF::MigrateIncentives { incentive_address: Some(h.incentive.clone()), code_id: 13 }, &[own]));
    v.push(e(
        "incentive.CloseFlow",
        &h.incentive,
        &white_whale_std::pool_network::incentive::ExecuteMsg::CloseFlow { flow_identifier: white_whale_std::pool_network::incentive::FlowIdentifier::Id(1) },
        &[own, s.flow_creator.as_str()],
    ));
    v.push(e(
        "incentive.CloseFlow[by label shared with a newer flow of user mallory]",
        &h.incentive,
        &white_whale_std::pool_network::incentive::ExecuteMsg::CloseFlow { flow_identifier: white_whale_std::pool_network::incentive::FlowIdentifier::Label("rewards".to_string()) },
        &[own, s.flow_creator.as_str()],
    ));
    // ---- frontend helper, epoch manager
    v.push(e("frontend_helper.UpdateConfig", &h.helper, &white_whale_std::pool_network::frontend_helper::ExecuteMsg::UpdateConfig { incentive_factory_addr: Some(h.ifactory.clone()), owner: None }, &[own]));
    use white_whale_std::epoch_manager::epoch_manager::ExecuteMsg as EM;
    v.push(e("epoch_manager.AddHook", &h.epoch_manager, &EM::AddHook { contract_addr: h.hookrx.clone() }, &[own]));
    v.push(e("epoch_manager.RemoveHook", &h.epoch_manager, &EM::RemoveHook { contract_addr: s.hookrx2.clone() }, &[own]));
    v.push(e(
        "epoch_manager.UpdateConfig",
        &h.epoch_manager,
        &EM::UpdateConfig { owner: None, epoch_config: Some(white_whale_std::epoch_manager::epoch_manager::EpochConfig { duration: Uint64::new(2 * crate::scn_lair::DAY_NS), genesis_epoch: Uint64::new(h.genesis_ns) }) },
        &[own],
    ));
    // ---- every configuration message again, once per optional field (incl. taking over the ownership) and empty
    let me = json!("$CALLER");
    let jv = |x: &dyn erased::Ser| x.to_value();
    let pool_fees = jv(&FH_FEES.pool());
    let trio_fees = jv(&FH_FEES.trio());
    let vault_fees = jv(&FH_FEES.vault());
    let toggle = json!({"withdrawals_enabled": true, "deposits_enabled": false, "swaps_enabled": true});
    let ramp = json!({"future_a": 200, "future_block": s.snap.height + 20_000});
    sweep(&mut v, "pool_factory.UpdateConfig", pf, &PF::UpdateConfig { owner: None, fee_collector_addr: None, token_code_id: None, pair_code_id: None, trio_code_id: None }, &[],
        &[("owner", me.clone()), ("fee_collector_addr", me.clone()), ("token_code_id", json!(1)), ("pair_code_id", json!(2)), ("trio_code_id", json!(3))], &[own]);
    if !after_transfer {
        sweep(&mut v, "pool_factory.UpdatePairConfig", pf, &PF::UpdatePairConfig { pair_addr: h.pair.addr.clone(), owner: None, fee_collector_addr: None, pool_fees: None, feature_toggle: None }, &[],
            &[("owner", me.clone()), ("fee_collector_addr", me.clone()), ("pool_fees", pool_fees.clone()), ("feature_toggle", toggle.clone())], &[own]);
        sweep(&mut v, "pool_factory.UpdateTrioConfig", pf, &PF::UpdateTrioConfig { trio_addr: h.trio.addr.clone(), owner: None, fee_collector_addr: None, pool_fees: None, feature_toggle: None, amp_factor: None }, &[],
            &[("owner", me.clone()), ("fee_collector_addr", me.clone()), ("pool_fees", trio_fees.clone()), ("feature_toggle", toggle.clone()), ("amp_factor", ramp.clone())], &[own]);
        sweep(&mut v, "vault_factory.UpdateVaultConfig", vf, &VF::UpdateVaultConfig { vault_addr: h.vault.vault.clone(), params: UpdateConfigParams { flash_loan_enabled: None, deposit_enabled: None, withdraw_enabled: None, new_owner: None, new_vault_fees: None, new_fee_collector_addr: None } }, &["params"],
            &[("flash_loan_enabled", json!(false)), ("deposit_enabled", json!(false)), ("withdraw_enabled", json!(false)), ("new_owner", me.clone()), ("new_vault_fees", vault_fees.clone()), ("new_fee_collector_addr", me.clone())], &[own]);
    }
    sweep(&mut v, "pair.UpdateConfig", &h.pair.addr, &white_whale_std::pool_network::pair::ExecuteMsg::UpdateConfig { owner: None, fee_collector_addr: None, pool_fees: None, feature_toggle: None }, &[],
        &[("owner", me.clone()), ("fee_collector_addr", me.clone()), ("pool_fees", pool_fees.clone()), ("feature_toggle", toggle.clone())], &child_owner_pair);
    sweep(&mut v, "trio.UpdateConfig", &h.trio.addr, &white_whale_std::pool_network::trio::ExecuteMsg::UpdateConfig { owner: None, fee_collector_addr: None, pool_fees: None, feature_toggle: None, amp_factor: None }, &[],
        &[("owner", me.clone()), ("fee_collector_addr", me.clone()), ("pool_fees", trio_fees.clone()), ("feature_toggle", toggle.clone()), ("amp_factor", ramp.clone())], &child_owner_pair);
    sweep(&mut v, "vault.UpdateConfig", &h.vault.vault, &white_whale_std::vault_network::vault::ExecuteMsg::UpdateConfig(UpdateConfigParams { flash_loan_enabled: None, deposit_enabled: None, withdraw_enabled: None, new_owner: None, new_vault_fees: None, new_fee_collector_addr: None }), &[],
        &[("flash_loan_enabled", json!(false)), ("deposit_enabled", json!(false)), ("withdraw_enabled", json!(false)), ("new_owner", me.clone()), ("new_vault_fees", vault_fees.clone()), ("new_fee_collector_addr", me.clone())], &child_owner_vault);
    sweep(&mut v, "vault_factory.UpdateConfig", vf, &VF::UpdateConfig { owner: None, fee_collector_addr: None, vault_id: None, token_id: None }, &[],
        &[("owner", me.clone()), ("fee_collector_addr", me.clone()), ("vault_id", json!(6)), ("token_id", json!(1))], &[own]);
    sweep(&mut v, "vault_router.UpdateConfig", vr, &white_whale_std::vault_network::vault_router::ExecuteMsg::UpdateConfig { owner: None, vault_factory_addr: None }, &[],
        &[("owner", me.clone()), ("vault_factory_addr", me.clone())], &[own]);
    sweep(&mut v, "fee_collector.UpdateConfig", &h.fee.collector, &white_whale_std::fee_collector::ExecuteMsg::UpdateConfig { owner: None, pool_router: None, fee_distributor: None, pool_factory: None, vault_factory: None, take_rate: None, take_rate_dao_address: None, is_take_rate_active: None }, &[],
        &[("owner", me.clone()), ("pool_router", me.clone()), ("fee_distributor", me.clone()), ("pool_factory", me.clone()), ("vault_factory", me.clone()), ("take_rate", json!("0.5")), ("take_rate_dao_address", me.clone()), ("is_take_rate_active", json!(true))], &[own]);
    sweep(&mut v, "fee_distributor.UpdateConfig", &h.fee.distributor, &white_whale_std::fee_distributor::ExecuteMsg::UpdateConfig { owner: None, bonding_contract_addr: None, fee_collector_addr: None, grace_period: None, distribution_asset: None, epoch_config: None }, &[],
        &[("owner", me.clone()), ("bonding_contract_addr", me.clone()), ("fee_collector_addr", me.clone()), ("grace_period", json!("5")), ("distribution_asset", jv(&native("uusdc"))), ("epoch_config", json!({"duration": (2 * crate::scn_lair::DAY_NS).to_string(), "genesis_epoch": h.genesis_ns.to_string()}))], &[own]);
    sweep(&mut v, "whale_lair.UpdateConfig", &h.fee.lair, &white_whale_std::whale_lair::ExecuteMsg::UpdateConfig { owner: None, unbonding_period: None, growth_rate: None, fee_distributor_addr: None }, &[],
        &[("owner", me.clone()), ("unbonding_period", json!("1000000000")), ("growth_rate", json!("0.5")), ("fee_distributor_addr", me.clone())], &[own]);
    sweep(&mut v, "incentive_factory.UpdateConfig", &h.ifactory, &IF::UpdateConfig { owner: None, fee_collector_addr: None, fee_distributor_addr: None, create_flow_fee: None, max_concurrent_flows: None, incentive_code_id: None, max_flow_start_time_buffer: None, min_unbonding_duration: None, max_unbonding_duration: None }, &[],
        &[("owner", me.clone()), ("fee_collector_addr", me.clone()), ("fee_distributor_addr", me.clone()), ("create_flow_fee", jv(&asset(&native("ufee"), 7))), ("max_concurrent_flows", json!(9)), ("incentive_code_id", json!(13)), ("max_flow_start_time_buffer", json!(20)), ("min_unbonding_duration", json!(90_000)), ("max_unbonding_duration", json!(31_000_000))], &[own]);
    sweep(&mut v, "frontend_helper.UpdateConfig", &h.helper, &white_whale_std::pool_network::frontend_helper::ExecuteMsg::UpdateConfig { incentive_factory_addr: None, owner: None }, &[],
        &[("owner", me.clone()), ("incentive_factory_addr", me.clone())], &[own]);
    sweep(&mut v, "epoch_manager.UpdateConfig", &h.epoch_manager, &EM::UpdateConfig { owner: None, epoch_config: None }, &[],
        &[("owner", me.clone()), ("epoch_config", json!({"duration": (3 * crate::scn_lair::DAY_NS).to_string(), "genesis_epoch": h.genesis_ns.to_string()}))], &[own]);
    v
}

mod erased {
    pub trait Ser {
        fn to_value(&self) -> serde_json::Value;
    }
    impl<T: serde::Serialize> Ser for T {
        fn to_value(&self) -> serde_json::Value {
            serde_json::to_value(self).unwrap()
        }
    }
}

pub fn callers(s: &Setup) -> Vec<(String, String)> {
    let h = &s.h;
    let mut v: Vec<(String, String)> = vec![
        ("owner".into(), OWNER.into()),
        ("other-owner".into(), NEWOWNER.into()),
        ("user".into(), MALLORY.into()),
        ("user2".into(), ALICE.into()),
        ("flow-creator".into(), BOB.into()),
        ("via-proxy-contract".into(), format!("proxy:{}", h.adversary)),
    ];
    for (n, a) in [
        ("pool_factory", &h.fee.pool_factory),
        ("vault_factory", &h.fee.vault_factory),
        ("incentive_factory", &h.ifactory),
        ("fee_collector", &h.fee.collector),
        ("fee_distributor", &h.fee.distributor),
        ("whale_lair", &h.fee.lair),
        ("pool_router", &h.fee.pool_router),
        ("vault_router", &h.vault_router),
        ("pair", &h.pair.addr),
        ("trio", &h.trio.addr),
        ("vault", &h.vault.vault),
        ("incentive", &h.incentive),
        ("helper", &h.helper),
        ("epoch_manager", &h.epoch_manager),
    ] {
        v.push((format!("contract:{n}"), a.clone()));
    }
    v
}

fn is_allowed(en: &Entry, caller_addr: &str, current_owner: &str) -> bool {
    en.allowed.iter().any(|a| if a == "owner" { caller_addr == current_owner } else { a == caller_addr })
}

pub fn run_case(w: &mut World, s: &Setup, en: &Entry, caller: &(String, String), after_transfer: bool, cx: &mut Cx) {
    w.restore(&s.snap);
    if en.label.contains("[from inside an open loan]") {
        // the internal callback sent by the borrower contract while its own flash loan of that vault is open (the loan
        // is then repaid exactly, so only the forged callback can make the transaction fail); one row, not per caller
        if caller.0 != "via-proxy-contract" {
            cx.count("inside_loan:not_applicable_to_caller");
            return;
        }
        let before = w.kv_clone();
        let r = crate::scn_vault::direct_loan(w, &s.h.vault, &FH_FEES, 1000, &[crate::scn_vault::Step::CallAfterTrade, crate::scn_vault::Step::Repay(crate::scn_vault::RepayKind::Exact)]);
        cx.count("unauthorised:attempt");
        cx.check("unauthorised_caller.rejected", r.is_err(), || format!("{}: the borrower's own AfterTrade call inside its loan was accepted", en.label));
        if r.is_err() {
            cx.check("unauthorised_caller.changes_nothing", kv_equal(&before, &w.kv_clone()), || format!("{}: state changed on a rejected call", en.label));
        }
        // control: the same loan without the forged callback goes through, so the rejection is due to the callback
        w.restore(&s.snap);
        let ok = crate::scn_vault::direct_loan(w, &s.h.vault, &FH_FEES, 1000, &[crate::scn_vault::Step::Repay(crate::scn_vault::RepayKind::Exact)]);
        cx.count("authorised:attempt");
        cx.check("authorised_caller.succeeds", ok.is_ok(), || format!("control loan without the forged callback failed: {:?}", ok.as_ref().err().map(|e| e.msg().to_string())));
        return;
    }
    let current_owner = if after_transfer { NEWOWNER } else { OWNER };
    // every caller can afford the attached funds, so that a rejection is the contract's decision and not the bank's
    if !caller.1.starts_with("proxy:") {
        for c in &en.funds {
            w.mint_native(&caller.1, c.amount.u128(), &c.denom);
        }
    }
    let before = w.kv_clone();
    let sender_addr = caller.1.strip_prefix("proxy:").unwrap_or(&caller.1).to_string();
    let msg = if en.label.contains("=caller") { Binary::from(String::from_utf8(en.msg.to_vec()).unwrap().replace("$CALLER", &sender_addr).into_bytes()) } else { en.msg.clone() };
    let r = if let Some(proxy) = caller.1.strip_prefix("proxy:") {
        let inner: CosmosMsg = WasmMsg::Execute { contract_addr: en.contract.clone(), msg, funds: vec![] }.into();
        w.exec(MALLORY, proxy, &AdvMsg::Forward { msgs: vec![inner] }, &[])
    } else {
        w.exec_raw(&caller.1, &en.contract, msg, &en.funds)
    };
    let allowed = is_allowed(en, &sender_addr, current_owner);
    if allowed {
        cx.count("authorised:attempt");
        // migrating a child to the code version it already runs is refused by the child's own version guard,
        // which is only reached once the factory has authorised the caller
        let passed_authorisation = r.is_ok() || (en.label.contains("Migrate") && r.as_ref().err().map(|e| e.msg().contains("Attempt to migrate to version")).unwrap_or(false));
        cx.check("authorised_caller.succeeds", passed_authorisation, || format!("{} called by {} ({}) who is authorised was rejected: {}", en.label, caller.0, sender_addr, r.as_ref().err().map(|e| e.msg().to_string()).unwrap_or_default()));
    } else {
        cx.count("unauthorised:attempt");
        let sig = en.note;
        // a configuration message that names no field changes nothing whoever sends it: accepting it from a stranger is
        // not a privileged operation performed, as long as the state really is untouched
        let empty_noop = en.label.ends_with("[nothing set]") && r.is_ok() && kv_equal(&before, &w.kv_clone());
        if empty_noop {
            cx.count("unauthorised:empty_update_accepted_without_effect");
        }
        cx.check_sig("unauthorised_caller.rejected", sig, r.is_err() || empty_noop, || format!("{} called by {} ({}) succeeded although only {:?} (owner = {}) may call it", en.label, caller.0, sender_addr, en.allowed, current_owner));
        if r.is_err() {
            let after = w.kv_clone();
            cx.check("unauthorised_caller.changes_nothing", kv_equal(&before, &after), || format!("{} by {}: state changed on a rejected call: {:?}", en.label, caller.0, kv_diff(&before, &after).into_iter().take(4).collect::<Vec<_>>()));
        }
    }
}

pub fn run(tier: &str, seed: u64) -> i32 {
    let mut ev = Evidence::new("C16", tier, seed);
    ev.assumptions = vec![
        "the classification table (which ExecuteMsg variant is privileged and for whom) is hand-written from the property statement and listed in the evidence".into(),
        "a call 'by contract X' is a top-level call whose sender is X's address (cw-multi-test accepts any sender); 'via-proxy-contract' goes through a real forwarding contract".into(),
        "public operations (swap, deposit, claim, ...) are not part of this matrix".into(),
    ];
    let mut table = vec![];
    for (after, combined) in [(false, false), (true, false), (true, true)] {
        let s = build(after, combined);
        let ens = entries(&s, after);
        let cs = callers(&s);
        let n = ens.len() * cs.len();
        let res = par_index_with(n, 3, World::new, |i, cx, w| {
            run_case(w, &s, &ens[i / cs.len()], &cs[i % cs.len()], after, cx);
        });
        if !after {
            for en in &ens {
                table.push(json!({"op": en.label, "allowed": en.allowed}));
            }
        }
        ev.add_grid_result(
            if combined { "privilege-matrix-after-ownership-transfer-in-combined-messages" } else if after { "privilege-matrix-after-ownership-transfer" } else { "privilege-matrix" },
            "every privileged ExecuteMsg variant x every caller role (owner, other owner, users, flow creator, proxy contract, each hub contract's address)",
            res,
            &|i| json!({"after_transfer": after, "combined_transfer": combined, "op": ens[i / cs.len()].label, "caller": cs[i % cs.len()].0, "caller_addr": cs[i % cs.len()].1}),
            &[0, n / 2, n - 1],
        );
    }
    ev.samples.push(json!({"classification_table": table}));
    ev.validated = ev.counters.get("authorised:attempt").cloned().unwrap_or(0);
    if ev.violations.is_empty() {
        ev.require_counter("authorised:attempt", 40);
        ev.require_counter("unauthorised:attempt", 500);
    }
    ev.finish()
}

pub fn replay(doc: &Value) -> bool {
    let p = &doc["point"];
    let after = p["after_transfer"].as_bool().unwrap();
    let s = build(after, p["combined_transfer"].as_bool().unwrap_or(false));
    let ens = entries(&s, after);
    let cs = callers(&s);
    let en = ens.iter().find(|e| e.label == p["op"].as_str().unwrap()).expect("op");
    let c = cs.iter().find(|c| c.0 == p["caller"].as_str().unwrap()).expect("caller");
    let mut cx = Cx { verbose: true, ..Default::default() };
    let mut w = World::new();
    println!("{} by {} ({}) after_transfer={}", en.label, c.0, c.1, after);
    run_case(&mut w, &s, en, c, after, &mut cx);
    let want = doc["oracle"].as_str().unwrap_or("");
    let mut rep = false;
    for v in &cx.violations {
        println!("  !! {} [{}]: {}", v.oracle, v.sig, v.detail);
        if v.oracle == want {
            rep = true;
        }
    }
    println!("reproduced={rep}");
    rep
}

#[allow(dead_code)]
fn _unused(_: AssetInfo) {}
