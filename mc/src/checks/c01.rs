//! C01 — constant-product pool: solvent, LP share never loses value.
use serde_json::Value;

use crate::deploy::Fee3;
use crate::engine::{default_cfg, explore, replay_trace, Evidence};
use crate::scn_pair::{Kinds, PairRoot, PairScn, Probe};

/// a fee set in which the protocol fee dwarfs the swap and burn fees (60% / 0 / 10%): anything that confuses the three
/// amounts moves value between the reserves, the ledger and the burn
pub const PROTOCOL_HEAVY: Fee3 = Fee3::new(600_000_000_000_000_000, 0, 100_000_000_000_000_000);

pub const FEES: [Fee3; 4] = [
    Fee3::new(0, 0, 0),
    Fee3::new(1_000_000_000_000_000, 2_000_000_000_000_000, 1_000_000_000_000_000),
    Fee3::new(300_000_000_000_000_000, 300_000_000_000_000_000, 300_000_000_000_000_000),
    Fee3::new(1, 1, 1),
];

/// root lists: "quick" (16), "thorough" (72, every kind x fee set x first deposit), "deep" (12, for the depth-4 run)
pub fn roots(tier: &str) -> Vec<PairRoot> {
    let mut v = vec![];
    let kinds: Vec<Kinds> = if tier == "quick" { vec![Kinds::NN, Kinds::NC] } else { vec![Kinds::NN, Kinds::NC, Kinds::CC] };
    let fees: Vec<usize> = if tier == "quick" {
        vec![1, 2]
    } else if tier == "deep" {
        vec![1, 3]
    } else {
        vec![0, 1, 2, 3]
    };
    let firsts: Vec<([u128; 2], bool)> = if tier == "quick" {
        vec![([1_000_000, 1_000_000], false), ([1001, 1001], false), ([1_000_000_000_000, 3_000_000], true), ([0, 0], false)]
    } else if tier == "deep" {
        vec![([1_000_000, 1_000_000], false), ([1_000_000_000_000, 3_000_000], true)]
    } else {
        vec![
            ([1_000_000, 1_000_000], false),
            ([1001, 1001], false),
            ([1_000_000_000_000, 3_000_000], true),
            ([10u128.pow(30), 10u128.pow(24)], false),
            ([1u128 << 100, 1u128 << 90], true),
            ([0, 0], false),
        ]
    };
    for k in &kinds {
        for f in &fees {
            for (first, pre) in &firsts {
                v.push(PairRoot {
                    label: format!("{:?}/fees{}/first{:?}/preswaps={}", k, f, first, pre),
                    kinds: *k,
                    decimals: [6, 6],
                    fees: FEES[*f],
                    first: *first,
                    pre_swaps: *pre,
                });
            }
        }
    }
    // a pool whose protocol fee is larger than its swap and burn fees together (0.5% / 0.1% / 0.1%)
    if tier != "deep" {
        v.push(PairRoot { label: "NN/fees(0.5%,0.1%,0.1%)/first[1e9, 1e9]/preswaps=true".into(), kinds: Kinds::NN, decimals: [6, 6], fees: Fee3::new(5_000_000_000_000_000, 1_000_000_000_000_000, 1_000_000_000_000_000), first: [1_000_000_000, 1_000_000_000], pre_swaps: true });
    }
    // reserves on the scale of an 18-decimals asset (every tier): 1e24 : 3e21 base units, amounts far above 2^64
    if tier != "deep" {
        v.push(PairRoot { label: "NC/fees1/first[1e24, 3e21]/preswaps=true".into(), kinds: Kinds::NC, decimals: [18, 18], fees: FEES[1], first: [10u128.pow(24), 3 * 10u128.pow(21)], pre_swaps: true });
    }
    v
}

pub fn scenario(tier: &str, reduced: bool) -> PairScn {
    PairScn {
        property: "C01".into(),
        stable_amp: None,
        roots: roots(tier),
        fee_alphabet: vec![FEES[0], FEES[2], PROTOCOL_HEAVY],
        probe: Probe::None,
        reduced,
    }
}

pub fn run(tier: &str, seed: u64) -> i32 {
    let mut ev = Evidence::new("C01", tier, seed);
    ev.assumptions = vec![
        "cw-multi-test 0.16.5 is the chain semantics (atomic transactions, bank, wasm dispatch)".into(),
        "amounts drawn from the stated alphabet relative to current reserves; histories bounded by the stated depth".into(),
        "default cargo features (cw20 LP token)".into(),
    ];
    // every root of the tier with the full alphabet to depth 3
    let scn = scenario(tier, false);
    let cfg = default_cfg("C01", tier, seed, 3);
    ev.add_report(explore(&scn, &cfg));
    if tier != "quick" && ev.violations.is_empty() {
        // full alphabet to depth 4 from the 'deep' roots
        let cfg = default_cfg("C01", tier, seed, 4);
        ev.add_report(explore(&scenario("deep", false), &cfg));
    }
    if tier != "quick" && ev.violations.is_empty() {
        // reduced alphabet to depth 5 from the quick roots
        let cfg = default_cfg("C01", tier, seed, 5);
        ev.add_report(explore(&scenario("quick", true), &cfg));
    }
    for c in ["provide:ok", "withdraw:ok", "swap:ok", "collect:nonzero", "swap:protocol_fee>0", "probe:deposit_withdraw", "setfees:ok", "provide:first"] {
        ev.require_counter(c, 1);
    }
    ev.finish()
}

pub fn replay(doc: &Value) -> bool {
    // roots are resolved by label; the thorough list contains every root of the other lists
    replay_trace(&scenario("thorough", false), doc)
}
