//! Flash-loan vault scenario over the real vault_factory, vault, vault_router, cw20 and fee
//! collector, with a scripted adversary contract as borrower. Serves C05 (share price),
//! C07 (vault ledgers), C14 (Share query) as BFS; C06 enumerates scripts through `run_script`.

use cosmwasm_std::{to_json_binary, BankMsg, Binary, CosmosMsg, Empty, Uint128, WasmMsg};
use serde::{Deserialize, Serialize};
use white_whale_std::pool_network::asset::AssetInfo;
use white_whale_std::vault_network::vault::{ExecuteMsg as VaultExec, PaybackAmountResponse, ProtocolFeesResponse, QueryMsg as VaultQuery, UpdateConfigParams};

use crate::big::b;
use crate::deploy::*;
use crate::engine::{Cx, Scenario};
use crate::helpers::AdvMsg;
use crate::world::{coin, TxResult, World};

pub const VDENOM: &str = "uwhale";
const BIG_FUND: u128 = 1u128 << 120;

#[derive(Clone, Debug)]
pub struct VaultRoot {
    pub label: String,
    pub cw20: bool,
    pub fees: Fee3, // (protocol, flash_loan, burn)
    /// first deposit by alice (0 = empty vault)
    pub first: u128,
    /// take one loan after the first deposit so that pending protocol fees != 0
    pub pre_loan: bool,
}

#[derive(Clone, Debug)]
pub struct VH {
    pub collector: String,
    pub factory: String,
    pub vault: String,
    pub router: String,
    pub adversary: String,
    pub lp: String,
    pub asset: AssetInfo,
    pub root: VaultRoot,
}

#[derive(Clone, Debug, Hash)]
pub struct VG {
    pub locked: u128,
    pub charged: u128,
    pub burned: u128,
    pub supply0: u128,
}

#[derive(Clone, Debug, Serialize, Deserialize, PartialEq, Eq, Hash)]
pub enum RepayKind {
    Exact,
    Minus1,
    Plus1,
    Zero,
    Double,
    Plus1000,
    /// absolute amount chosen by the harness
    Custom(u64),
}

#[derive(Clone, Debug, Serialize, Deserialize, PartialEq, Eq, Hash)]
pub enum Step {
    Repay(RepayKind),
    Fail,
    Deposit(u64),
    WithdrawShares(u64),
    Collect,
    UpdateConfigAttempt,
    CallAfterTrade,
    Nested { amount: u64, sub: Vec<Step> },
}

#[derive(Clone, Debug, Serialize, Deserialize)]
pub enum VAct {
    Deposit { user: String, amount: String },
    Withdraw { user: String, part: String },
    Loan { amount: String, script: Vec<Step> },
    Collect { user: String },
    CollectVia { user: String },
    SetFees { idx: usize },
    /// somebody bank-sends the vault coins of a look-alike denom (the vault's denom in upper case); no vault entry
    /// point is involved, and nothing the vault does may depend on it
    SendLookalike { amount: u64 },
    /// a deposit of a native vault whose attached coin does not match the declared amount / denom
    BadDeposit { user: String, kind: String },
}

pub struct VaultScn {
    pub property: String,
    pub roots: Vec<VaultRoot>,
    pub fee_alphabet: Vec<Fee3>,
    pub probe_share: bool,
}

pub fn fee_of(share: u128, amount: u128) -> u128 {
    (b(amount) * b(share) / b(ONE18)).low_u128()
}

pub fn deploy_vault(r: &VaultRoot, w: &mut World) -> VH {
    let collector = w
        .instantiate(w.codes.fee_collector, OWNER, &white_whale_std::fee_collector::InstantiateMsg {}, &[], "fee_collector", Some(OWNER))
        .expect("collector");
    let factory = w
        .instantiate(
            w.codes.vault_factory,
            OWNER,
            &white_whale_std::vault_network::vault_factory::InstantiateMsg {
                owner: OWNER.to_string(),
                vault_id: w.codes.vault,
                token_id: w.codes.token,
                fee_collector_addr: collector.clone(),
            },
            &[],
            "vault_factory",
            Some(OWNER),
        )
        .expect("vault factory");
    // (a root labelled ".../ibc-denom" manages an ibc voucher denom instead of the plain one)
    let asset = if r.cw20 {
        token(&w.new_cw20("vtok", 6, &[], OWNER))
    } else if r.label.contains("/ibc-denom") {
        native("ibc/27394FB092D2ECCD56123C74F36E4C1F926001CEADA9CA97EA622B25F41E5EB2")
    } else {
        native(VDENOM)
    };
    w.exec(
        OWNER,
        &factory,
        &white_whale_std::vault_network::vault_factory::ExecuteMsg::CreateVault { asset_info: asset.clone(), fees: r.fees.vault(), token_factory_lp: false },
        &[],
    )
    .unwrap_or_else(|e| panic!("create vault {:?}", e));
    let vault: Option<String> = w
        .query(&factory, &white_whale_std::vault_network::vault_factory::QueryMsg::Vault { asset_info: asset.clone() })
        .expect("vault query");
    let vault = vault.expect("vault exists");
    let cfg: white_whale_std::vault_network::vault::Config = w.query(&vault, &VaultQuery::Config {}).expect("vault config");
    let lp = match cfg.lp_asset {
        AssetInfo::Token { contract_addr } => contract_addr,
        AssetInfo::NativeToken { denom } => denom,
    };
    let router = w
        .instantiate(
            w.codes.vault_router,
            OWNER,
            &white_whale_std::vault_network::vault_router::InstantiateMsg { owner: OWNER.to_string(), vault_factory_addr: factory.clone() },
            &[],
            "vault_router",
            Some(OWNER),
        )
        .expect("vault router");
    let adversary = w.instantiate(w.codes.adversary, OWNER, &Empty {}, &[], "adversary", None).expect("adversary");
    for u in USERS.iter().chain([MALLORY, adversary.as_str()].iter()) {
        fund(w, &asset, u, BIG_FUND);
    }
    VH { collector, factory, vault, router, adversary, lp, asset, root: r.clone() }
}

pub fn vault_deposit(w: &mut World, h: &VH, user: &str, amount: u128) -> TxResult {
    match &h.asset {
        AssetInfo::NativeToken { denom } => w.exec(user, &h.vault, &VaultExec::Deposit { amount: Uint128::new(amount) }, &if amount > 0 { vec![coin(amount, denom)] } else { vec![] }),
        AssetInfo::Token { contract_addr } => {
            // the vault demands allowance == amount exactly: reset whatever is left, then allow
            let cur: cw20::AllowanceResponse = w
                .query(contract_addr, &cw20::Cw20QueryMsg::Allowance { owner: user.to_string(), spender: h.vault.clone() })
                .unwrap();
            if !cur.allowance.is_zero() {
                let _ = w.exec(user, contract_addr, &cw20::Cw20ExecuteMsg::DecreaseAllowance { spender: h.vault.clone(), amount: cur.allowance, expires: None }, &[]);
            }
            if amount > 0 {
                w.cw20_allow(contract_addr, user, &h.vault, amount);
            }
            let r = w.exec(user, &h.vault, &VaultExec::Deposit { amount: Uint128::new(amount) }, &[]);
            if r.is_err() && amount > 0 {
                let _ = w.exec(user, contract_addr, &cw20::Cw20ExecuteMsg::DecreaseAllowance { spender: h.vault.clone(), amount: Uint128::new(amount), expires: None }, &[]);
            }
            r
        }
    }
}

pub fn vault_withdraw(w: &mut World, h: &VH, user: &str, shares: u128) -> TxResult {
    w.exec(
        user,
        &h.lp,
        &cw20::Cw20ExecuteMsg::Send {
            contract: h.vault.clone(),
            amount: Uint128::new(shares),
            msg: to_json_binary(&white_whale_std::vault_network::vault::Cw20HookMsg::Withdraw {}).unwrap(),
        },
        &[],
    )
}

pub fn vault_pending(w: &World, h: &VH, all_time: bool) -> u128 {
    let r: ProtocolFeesResponse = w.query(&h.vault, &VaultQuery::ProtocolFees { all_time }).expect("protocol fees query");
    r.fees.amount.u128()
}
pub fn vault_burned(w: &World, h: &VH) -> u128 {
    let r: ProtocolFeesResponse = w.query(&h.vault, &VaultQuery::BurnedFees {}).expect("burned fees query");
    r.fees.amount.u128()
}
pub fn vault_balance(w: &World, h: &VH) -> u128 {
    info_balance(w, &h.asset, &h.vault)
}
pub fn loan_counter(w: &World, h: &VH) -> Option<u32> {
    w.raw(&h.vault, b"loan_counter").and_then(|v| serde_json::from_slice::<u32>(&v).ok())
}
pub fn current_fees(w: &World, h: &VH) -> Fee3 {
    let cfg: white_whale_std::vault_network::vault::Config = w.query(&h.vault, &VaultQuery::Config {}).expect("vault config");
    Fee3::new(cfg.fees.protocol_fee.share.atomics().u128(), cfg.fees.flash_loan_fee.share.atomics().u128(), cfg.fees.burn_fee.share.atomics().u128())
}

fn pay_msg(h: &VH, to: &str, amount: u128) -> Option<CosmosMsg> {
    if amount == 0 {
        return None;
    }
    Some(match &h.asset {
        AssetInfo::NativeToken { denom } => BankMsg::Send { to_address: to.to_string(), amount: vec![coin(amount, denom)] }.into(),
        AssetInfo::Token { contract_addr } => WasmMsg::Execute {
            contract_addr: contract_addr.clone(),
            msg: to_json_binary(&cw20::Cw20ExecuteMsg::Transfer { recipient: to.to_string(), amount: Uint128::new(amount) }).unwrap(),
            funds: vec![],
        }
        .into(),
    })
}
fn wasm(contract: &str, msg: Binary, funds: Vec<cosmwasm_std::Coin>) -> CosmosMsg {
    WasmMsg::Execute { contract_addr: contract.to_string(), msg, funds }.into()
}

/// All loans contained in a script (outer first), as amounts.
pub fn loans_in(amount: u128, script: &[Step]) -> Vec<u128> {
    let mut v = vec![amount];
    for s in script {
        if let Step::Nested { amount, sub } = s {
            v.extend(loans_in(*amount as u128, sub));
        }
    }
    v
}

/// Compile a borrower script into the messages the adversary emits inside the callback of
/// a loan of `loan` units, under fee triple `f`.
pub fn compile(h: &VH, f: &Fee3, loan: u128, script: &[Step]) -> Vec<CosmosMsg> {
    let exact = loan + fee_of(f.protocol, loan) + fee_of(f.swap, loan) + fee_of(f.burn, loan);
    let mut out = vec![];
    for s in script {
        match s {
            Step::Repay(k) => {
                let amt = match k {
                    RepayKind::Exact => exact,
                    RepayKind::Minus1 => exact.saturating_sub(1),
                    RepayKind::Plus1 => exact + 1,
                    RepayKind::Zero => 0,
                    RepayKind::Double => exact * 2,
                    RepayKind::Plus1000 => exact + 1000,
                    RepayKind::Custom(x) => *x as u128,
                };
                if let Some(m) = pay_msg(h, &h.vault, amt) {
                    out.push(m);
                }
            }
            Step::Fail => out.push(wasm(&h.adversary, to_json_binary(&AdvMsg::Fail {}).unwrap(), vec![])),
            Step::Deposit(a) => {
                let a = &(*a as u128);
                match &h.asset {
                AssetInfo::NativeToken { denom } => out.push(wasm(&h.vault, to_json_binary(&VaultExec::Deposit { amount: Uint128::new(*a) }).unwrap(), vec![coin(*a, denom)])),
                AssetInfo::Token { contract_addr } => {
                    out.push(wasm(
                        contract_addr,
                        to_json_binary(&cw20::Cw20ExecuteMsg::IncreaseAllowance { spender: h.vault.clone(), amount: Uint128::new(*a), expires: None }).unwrap(),
                        vec![],
                    ));
                    out.push(wasm(&h.vault, to_json_binary(&VaultExec::Deposit { amount: Uint128::new(*a) }).unwrap(), vec![]));
                }
            }
            }
            Step::WithdrawShares(k) => out.push(wasm(
                &h.lp,
                to_json_binary(&cw20::Cw20ExecuteMsg::Send {
                    contract: h.vault.clone(),
                    amount: Uint128::new(*k as u128),
                    msg: to_json_binary(&white_whale_std::vault_network::vault::Cw20HookMsg::Withdraw {}).unwrap(),
                })
                .unwrap(),
                vec![],
            )),
            Step::Collect => out.push(wasm(&h.vault, to_json_binary(&VaultExec::CollectProtocolFees {}).unwrap(), vec![])),
            Step::UpdateConfigAttempt => out.push(wasm(
                &h.vault,
                to_json_binary(&VaultExec::UpdateConfig(UpdateConfigParams {
                    flash_loan_enabled: None,
                    deposit_enabled: None,
                    withdraw_enabled: None,
                    new_owner: Some(h.adversary.clone()),
                    new_vault_fees: None,
                    new_fee_collector_addr: None,
                }))
                .unwrap(),
                vec![],
            )),
            Step::CallAfterTrade => out.push(wasm(
                &h.vault,
                to_json_binary(&VaultExec::Callback(white_whale_std::vault_network::vault::CallbackMsg::AfterTrade { old_balance: Uint128::zero(), loan_amount: Uint128::zero() })).unwrap(),
                vec![],
            )),
            Step::Nested { amount, sub } => {
                let inner = compile(h, f, *amount as u128, sub);
                out.push(wasm(
                    &h.vault,
                    to_json_binary(&VaultExec::FlashLoan { amount: Uint128::new(*amount as u128), msg: to_json_binary(&AdvMsg::Forward { msgs: inner }).unwrap() }).unwrap(),
                    vec![],
                ));
            }
        }
    }
    out
}

/// Top-level transaction: MALLORY tells the adversary contract to take a loan whose callback
/// runs `script`.
pub fn direct_loan(w: &mut World, h: &VH, f: &Fee3, amount: u128, script: &[Step]) -> TxResult {
    let inner = compile(h, f, amount, script);
    let loan = wasm(
        &h.vault,
        to_json_binary(&VaultExec::FlashLoan { amount: Uint128::new(amount), msg: to_json_binary(&AdvMsg::Forward { msgs: inner }).unwrap() }).unwrap(),
        vec![],
    );
    w.exec(MALLORY, &h.adversary, &AdvMsg::Forward { msgs: vec![loan] }, &[])
}

pub struct LoanObs {
    pub vault_bal: u128,
    pub pending: u128,
    pub all_time: u128,
    pub burned: u128,
    pub supply: u128,
    pub lp_supply: u128,
    pub collector: u128,
}
pub fn observe(w: &World, h: &VH) -> LoanObs {
    LoanObs {
        vault_bal: vault_balance(w, h),
        pending: vault_pending(w, h, false),
        all_time: vault_pending(w, h, true),
        burned: vault_burned(w, h),
        supply: info_supply(w, &h.asset),
        lp_supply: w.cw20_supply(&h.lp),
        collector: info_balance(w, &h.asset, &h.collector),
    }
}

/// Oracles of C06 for one loan transaction (direct). `pre`/`post` observations, `f` the fee
/// triple in force, `amount`/`script` the loan. Returns nothing; reports into cx.
#[allow(clippy::too_many_arguments)]
pub fn loan_oracles(cx: &mut Cx, w: &World, h: &VH, f: &Fee3, amount: u128, script: &[Step], r: &TxResult, pre: &LoanObs, post: &LoanObs, prefix: &str) {
    let nested = script.iter().any(|s| matches!(s, Step::Nested { .. }));
    match r {
        Ok(_) => {
            cx.count(&format!("{prefix}loan:ok"));
            let loans = loans_in(amount, script);
            let p: u128 = loans.iter().map(|l| fee_of(f.protocol, *l)).sum();
            let fl: u128 = loans.iter().map(|l| fee_of(f.swap, *l)).sum();
            let bu: u128 = loans.iter().map(|l| fee_of(f.burn, *l)).sum();
            if p + fl + bu > 0 {
                cx.count(&format!("{prefix}loan:ok_with_fees"));
            }
            // known-finding class: with nested loans the outermost loan's own fees are paid but the
            // inner loans' fees can be offset against the outer repayment
            let inner_pf: u128 = loans.iter().skip(1).map(|l| fee_of(f.protocol, *l) + fee_of(f.swap, *l)).sum();
            let outer_paid = post.vault_bal + (post.collector - pre.collector) >= pre.vault_bal + fee_of(f.protocol, amount) + fee_of(f.swap, amount);
            let shortfall_is_inner_fees = post.vault_bal + (post.collector - pre.collector) + inner_pf >= pre.vault_bal + p + fl;
            let sig = if nested && outer_paid && shortfall_is_inner_fees { "nested-loan-inner-fees-offset" } else { "" };
            // (this clause belongs to C06; the C05 BFS passes prefix "c05:" and relies on the share-price oracle)
            cx.check_sig("loan.vault_balance_grows_by_all_fees", sig, prefix == "c05:" || post.vault_bal + (post.collector - pre.collector) >= pre.vault_bal + p + fl, || {
                format!(
                    "loan {} script {:?}: vault balance {} -> {} (collector +{}) but protocol+flash fees of completed loans are {}+{}",
                    amount,
                    script,
                    pre.vault_bal,
                    post.vault_bal,
                    post.collector - pre.collector,
                    p,
                    fl
                )
            });
            cx.check("loan.burn_fee_destroyed", pre.supply - post.supply == bu && post.burned - pre.burned == bu, || {
                format!("loan {} script {:?}: supply -{} burned counter +{} but burn fees of completed loans are {}", amount, script, pre.supply - post.supply, post.burned - pre.burned, bu)
            });
            cx.check("loan.protocol_fee_recorded", post.all_time - pre.all_time == p, || {
                format!("loan {} script {:?}: all-time protocol fees +{} but floor(share*loan) sums to {}", amount, script, post.all_time - pre.all_time, p)
            });
            cx.check("loan.counter_back_to_zero", loan_counter(w, h) == Some(0), || format!("LOAN_COUNTER = {:?} after a completed loan", loan_counter(w, h)));
            cx.check("loan.no_shares_minted", post.lp_supply <= pre.lp_supply, || format!("LP supply {} -> {} within a loan transaction", pre.lp_supply, post.lp_supply));
        }
        Err(e) => {
            cx.count(&format!("{prefix}loan:reverted"));
            cx.note(|| format!("reverted: {}", e.msg()));
            cx.check("loan.counter_back_to_zero", loan_counter(w, h) == Some(0), || format!("LOAN_COUNTER = {:?} after a reverted loan", loan_counter(w, h)));
        }
    }
}

impl VaultScn {
    /// keep only the violations of oracle clauses that belong to the property being checked
    fn keep_own(&self, cx: &mut Cx) {
        let prefixes: &[&str] = match self.property.as_str() {
            "C05" => &["share_price.", "deposit.", "withdraw.", "first_deposit.", "deposit_then_withdraw.", "min_liquidity.", "solvent.", "loan.exact", "loan.one_unit", "loan.counter"],
            "C07" => &["collect.", "ledger.", "burn."],
            "C14" => &["share_query."],
            _ => return,
        };
        cx.violations.retain(|v| prefixes.iter().any(|p| v.oracle.starts_with(p)));
    }
}

impl Scenario for VaultScn {
    type Action = VAct;
    type Ghost = VG;
    type Handles = VH;

    fn name(&self) -> String {
        format!("vault-{}", self.property)
    }
    fn root_labels(&self) -> Vec<String> {
        self.roots.iter().map(|r| r.label.clone()).collect()
    }
    fn setup(&self, root: usize, w: &mut World) -> (VH, VG) {
        let r = &self.roots[root];
        let h = deploy_vault(r, w);
        if r.first > 0 {
            if r.first > BIG_FUND / 2 {
                // (roots larger than the users' standing funds: the first depositor is given the amount on top)
                fund(w, &h.asset, ALICE, r.first);
                // (and the borrower can afford the fees of loans of that size)
                fund(w, &h.asset, &h.adversary, r.first / 16);
            }
            vault_deposit(w, &h, ALICE, r.first).unwrap_or_else(|e| panic!("first deposit {:?}", e));
            if r.pre_loan {
                direct_loan(w, &h, &r.fees, r.first / 2, &[Step::Repay(RepayKind::Exact)]).unwrap_or_else(|e| panic!("pre loan {:?}", e));
            }
        }
        if self.property == "C05" {
            if let AssetInfo::NativeToken { denom } = &h.asset {
                if denom.to_uppercase() != *denom {
                    w.mint_native(MALLORY, 1_000_000_000, &denom.to_uppercase());
                } else {
                    // (an ibc denom is already upper case: the look-alike is its lower-case twin)
                    w.mint_native(MALLORY, 1_000_000_000, &denom.to_lowercase());
                }
            }
        }
        let burned = vault_burned(w, &h);
        let g = VG { locked: w.cw20_balance(&h.lp, &h.vault), charged: vault_pending(w, &h, true), burned, supply0: info_supply(w, &h.asset) + burned };
        (h, g)
    }

    fn actions(&self, w: &World, h: &VH, _g: &VG, _depth: usize) -> Vec<VAct> {
        let mut v = vec![];
        let bal = vault_balance(w, h);
        let c07 = self.property == "C07";
        let mut dep: Vec<u128> = if c07 { vec![1001, 1_000_000] } else { vec![1, 999, 1000, 1001, 1_000_000, bal.saturating_mul(7).max(2000)] };
        dep.sort();
        dep.dedup();
        for (ui, u) in USERS.iter().enumerate() {
            let ds: Vec<u128> = if ui == 0 { dep.clone() } else if c07 { vec![] } else { vec![1001, 1_000_000] };
            for d in ds {
                v.push(VAct::Deposit { user: u.to_string(), amount: d.to_string() });
            }
            let lpb = w.cw20_balance(&h.lp, u);
            if lpb > 0 {
                let parts: &[&str] = if c07 { &["half"] } else { &["all", "half", "one"] };
                for part in parts {
                    if *part == "half" && lpb < 2 {
                        continue;
                    }
                    v.push(VAct::Withdraw { user: u.to_string(), part: part.to_string() });
                }
            }
        }
        // loans
        let f = current_fees(w, h);
        let mut amts: Vec<u128> = if c07 {
            // protocol fee of one loan lands in {0,1,500,999,1000,1001,1e6}
            let mut a = vec![1u128];
            for t in [1u128, 500, 999, 1000, 1001, 1_000_000] {
                a.push((b(t) * b(ONE18) / b(f.protocol.max(1))).low_u128().max(1));
            }
            // (vaults on the scale of 18-decimals assets: a loan of a third of the balance, whose fees exceed 2^64)
            if bal >= 10u128.pow(20) {
                a.push(bal / 3);
            }
            a.retain(|x| *x <= bal);
            a
        } else {
            vec![1, 1000, bal.max(1)]
        };
        amts.sort();
        amts.dedup();
        let scripts: Vec<Vec<Step>> = if c07 {
            // the second script calls the permissionless CollectProtocolFees from inside the loan callback
            vec![vec![Step::Repay(RepayKind::Exact)], vec![Step::Collect, Step::Repay(RepayKind::Exact)]]
        } else {
            vec![vec![Step::Repay(RepayKind::Exact)], vec![Step::Repay(RepayKind::Plus1000)], vec![Step::Repay(RepayKind::Minus1)], vec![Step::Fail]]
        };
        // nested loans (C05): an honest one, and one whose outer repayment is short by exactly the
        // protocol+flash fees the inner loan paid
        let mut nested_scripts: Vec<(u128, Vec<Step>)> = vec![];
        if !c07 && bal >= 4000 && bal < (1u128 << 60) {
            let outer = 1000u128;
            let inner = (bal / 2) as u64;
            let inner_pf = fee_of(f.protocol, inner as u128) + fee_of(f.swap, inner as u128);
            let exact_outer = outer + fee_of(f.protocol, outer) + fee_of(f.swap, outer) + fee_of(f.burn, outer);
            let nest = Step::Nested { amount: inner, sub: vec![Step::Repay(RepayKind::Exact)] };
            nested_scripts.push((outer, vec![nest.clone(), Step::Repay(RepayKind::Exact)]));
            nested_scripts.push((outer, vec![nest.clone(), Step::Deposit(1000), Step::Repay(RepayKind::Exact)]));
            nested_scripts.push((outer, vec![Step::Deposit(1000), Step::Repay(RepayKind::Exact)]));
            nested_scripts.push((outer, vec![nest, Step::Repay(RepayKind::Custom(exact_outer.saturating_sub(inner_pf) as u64))]));
        }
        if bal > 0 {
            for a in &amts {
                for s in &scripts {
                    v.push(VAct::Loan { amount: a.to_string(), script: s.clone() });
                }
            }
            if c07 {
                // a repayment short by exactly the protocol fees the vault still owes the collector
                let pending = vault_pending(w, h, false);
                if let Some(a) = amts.iter().find(|a| fee_of(f.protocol, **a) >= 1000).or(amts.last()) {
                    let exact = a + fee_of(f.protocol, *a) + fee_of(f.swap, *a) + fee_of(f.burn, *a);
                    if pending > 0 && exact > pending && exact < (1u128 << 63) {
                        v.push(VAct::Loan { amount: a.to_string(), script: vec![Step::Repay(RepayKind::Custom((exact - pending) as u64))] });
                    }
                }
            }
            for (a, s) in nested_scripts {
                v.push(VAct::Loan { amount: a.to_string(), script: s });
            }
        }
        v.push(VAct::Collect { user: MALLORY.to_string() });
        if c07 {
            v.push(VAct::CollectVia { user: BOB.to_string() });
        }
        if self.property == "C05" {
            if let AssetInfo::NativeToken { denom } = &h.asset {
                if w.native_balance(&h.vault, &denom.to_uppercase()) == 0 && denom.to_uppercase() != *denom {
                    v.push(VAct::SendLookalike { amount: 10_001 });
                }
                for k in ["underfunded", "nothing_attached", "lookalike_denom", "two_coins"] {
                    v.push(VAct::BadDeposit { user: MALLORY.to_string(), kind: k.to_string() });
                }
            } else {
                // cw20 vault: a deposit "paid" with bank coins spelled like the token's contract address, no allowance
                v.push(VAct::BadDeposit { user: MALLORY.to_string(), kind: "addr_coin".to_string() });
            }
        }
        for i in 0..self.fee_alphabet.len() {
            v.push(VAct::SetFees { idx: i });
        }
        v
    }

    fn step(&self, w: &mut World, h: &VH, g: &mut VG, a: &VAct, cx: &mut Cx) {
        let pre = observe(w, h);
        let c07 = self.property == "C07";
        let price_oracles = self.property == "C05";
        match a {
            VAct::Deposit { user, amount } => {
                let amount: u128 = amount.parse().unwrap();
                let lpb = w.cw20_balance(&h.lp, user);
                let ub = info_balance(w, &h.asset, user);
                match vault_deposit(w, h, user, amount) {
                    Ok(_) => {
                        cx.count("deposit:ok");
                        let minted = w.cw20_balance(&h.lp, user) - lpb;
                        if price_oracles {
                            cx.check("deposit.user_paid_exactly", ub - info_balance(w, &h.asset, user) == amount, || format!("deposit {} moved user balance by {}", amount, ub - info_balance(w, &h.asset, user)));
                            if pre.lp_supply > 0 {
                                let backing = pre.vault_bal - pre.pending;
                                let max = b(amount) * b(pre.lp_supply) / b(backing.max(1));
                                cx.check("deposit.mints_at_most_pro_rata", b(minted) <= max, || {
                                    format!("deposit {} into backing {} supply {} minted {} > pro-rata {}", amount, backing, pre.lp_supply, minted, max)
                                });
                            } else {
                                cx.count("deposit:first");
                                let locked = w.cw20_balance(&h.lp, &h.vault);
                                cx.check("first_deposit.locks_minimum", locked == 1000 && minted == amount - 1000, || format!("first deposit {}: vault holds {} shares, depositor got {}", amount, locked, minted));
                            }
                            // probe: withdraw the minted shares immediately (on a copy)
                            if minted > 0 {
                                let snap = w.kv_clone();
                                let b0 = info_balance(w, &h.asset, user);
                                if vault_withdraw(w, h, user, minted).is_ok() {
                                    let got = info_balance(w, &h.asset, user) - b0;
                                    cx.count("probe:deposit_withdraw");
                                    cx.check("deposit_then_withdraw.no_gain", got <= amount, || format!("deposited {} and immediately withdrew {}", amount, got));
                                }
                                w.kv_restore(&snap);
                            }
                        }
                    }
                    Err(e) => {
                        cx.count("deposit:rejected");
                        cx.note(|| format!("rejected: {}", e.msg()));
                    }
                }
            }
            VAct::Withdraw { user, part } => {
                let lpb = w.cw20_balance(&h.lp, user);
                let amt = match part.as_str() {
                    "all" => lpb,
                    "half" => lpb / 2,
                    _ => 1,
                };
                let ub = info_balance(w, &h.asset, user);
                match vault_withdraw(w, h, user, amt) {
                    Ok(_) => {
                        cx.count("withdraw:ok");
                        if price_oracles {
                            let got = info_balance(w, &h.asset, user) - ub;
                            let max = (b(amt) * b(pre.vault_bal - pre.pending) / b(pre.lp_supply)).low_u128();
                            cx.check("withdraw.at_most_pro_rata", got <= max, || format!("withdrew {} of {} shares: paid {} > pro-rata {}", amt, pre.lp_supply, got, max));
                            cx.check("withdraw.burns_exactly", pre.lp_supply - w.cw20_supply(&h.lp) == amt, || "LP burn mismatch".to_string());
                        }
                    }
                    Err(e) => {
                        cx.count("withdraw:rejected");
                        cx.note(|| format!("rejected: {}", e.msg()));
                    }
                }
            }
            VAct::Loan { amount, script } => {
                let amount: u128 = amount.parse().unwrap();
                let f = current_fees(w, h);
                // (precondition of "repaying exactly the quoted amount suffices": the borrower owns the fees)
                let borrower_funds = info_balance(w, &h.asset, &h.adversary);
                let fees_due = fee_of(f.protocol, amount).saturating_add(fee_of(f.swap, amount)).saturating_add(fee_of(f.burn, amount));
                let r = direct_loan(w, h, &f, amount, script);
                let post = observe(w, h);
                if r.is_ok() {
                    let loans = loans_in(amount, script);
                    g.charged += loans.iter().map(|l| fee_of(f.protocol, *l)).sum::<u128>();
                    g.burned += loans.iter().map(|l| fee_of(f.burn, *l)).sum::<u128>();
                    if fee_of(f.protocol, amount) > 0 {
                        cx.count("loan:protocol_fee>0");
                    }
                    if fee_of(f.burn, amount) > 0 {
                        cx.count("loan:burn_fee>0");
                    }
                }
                if c07 && r.is_ok() {
                    // the protocol fee credited to the ledgers was really paid in by the borrower (not taken from the
                    // vault's own funds): the vault's balance, plus whatever left for the collector, grew at least by it
                    let credited = post.all_time - pre.all_time;
                    cx.check("ledger.credited_fees_were_paid", post.vault_bal + (post.collector - pre.collector) >= pre.vault_bal + credited, || {
                        format!("loan {} script {:?}: {} of protocol fees credited but the vault balance went {} -> {} (collector +{})", amount, script, credited, pre.vault_bal, post.vault_bal, post.collector - pre.collector)
                    });
                }
                loan_oracles(cx, w, h, &f, amount, script, &r, &pre, &post, if self.property == "C05" { "c05:" } else { "" });
                if r.is_ok() {
                    cx.count("loan:ok");
                } else {
                    cx.count("loan:reverted");
                }
                if script == &[Step::Repay(RepayKind::Exact)] && borrower_funds < fees_due {
                    cx.count("loan:borrower_cannot_afford_the_fees");
                } else if script == &[Step::Repay(RepayKind::Exact)] {
                    cx.check("loan.exact_payback_suffices", r.is_ok(), || format!("loan {} repaid with exactly the quoted amount was rejected: {}", amount, r.as_ref().err().map(|e| e.msg().to_string()).unwrap_or_default()));
                }
                if script == &[Step::Repay(RepayKind::Minus1)] {
                    cx.check("loan.one_unit_less_never_suffices", r.is_err(), || format!("loan {} repaid with one unit less than quoted was accepted", amount));
                }
            }
            VAct::Collect { user } | VAct::CollectVia { user } => {
                let holders: Vec<&str> = vec![ALICE, BOB, CAROL, MALLORY, OWNER, &h.adversary, &h.factory];
                let ob: Vec<u128> = holders.iter().map(|x| info_balance(w, &h.asset, x)).collect();
                let r = match a {
                    VAct::Collect { .. } => w.exec(user, &h.vault, &VaultExec::CollectProtocolFees {}, &[]),
                    _ => w.exec(
                        user,
                        &h.collector,
                        &white_whale_std::fee_collector::ExecuteMsg::CollectFees {
                            collect_fees_for: white_whale_std::fee_collector::FeesFor::Contracts {
                                contracts: vec![white_whale_std::fee_collector::Contract { address: h.vault.clone(), contract_type: white_whale_std::fee_collector::ContractType::Vault {} }],
                            },
                        },
                        &[],
                    ),
                };
                match r {
                    Ok(_) => {
                        cx.count("collect:ok");
                        if pre.pending > 0 {
                            cx.count("collect:nonzero");
                        }
                        if c07 {
                            let post = observe(w, h);
                            cx.check("collect.transfers_exactly_the_ledger_decrease", post.collector - pre.collector == pre.pending - post.pending && post.pending == 0, || {
                                format!("collector got {} but the pending ledger went {} -> {}", post.collector - pre.collector, pre.pending, post.pending)
                            });
                            let oa: Vec<u128> = holders.iter().map(|x| info_balance(w, &h.asset, x)).collect();
                            cx.check("collect.nobody_else_is_paid", oa == ob, || format!("balances of {:?} changed on collect", holders));
                            cx.check("collect.lp_backing_unchanged", post.vault_bal - post.pending == pre.vault_bal - pre.pending && post.lp_supply == pre.lp_supply, || {
                                format!("backing {} -> {} on collect", pre.vault_bal - pre.pending, post.vault_bal - post.pending)
                            });
                        }
                    }
                    Err(e) => {
                        cx.count("collect:rejected");
                        cx.note(|| format!("rejected: {}", e.msg()));
                    }
                }
            }
            VAct::BadDeposit { user, kind } => {
                if let AssetInfo::Token { contract_addr } = &h.asset {
                    let declared = 1000u128;
                    w.mint_native(user, declared, contract_addr);
                    let ub = w.cw20_balance(contract_addr, user);
                    let lpb = w.cw20_balance(&h.lp, user);
                    let r = w.exec(user, &h.vault, &VaultExec::Deposit { amount: Uint128::new(declared) }, &[coin(declared, contract_addr)]);
                    match &r {
                        Ok(_) => {
                            cx.count("bad_deposit:accepted");
                            let paid = ub - w.cw20_balance(contract_addr, user);
                            cx.check("deposit.user_paid_exactly", paid == declared, || {
                                format!("deposit declaring {} paid with bank coins spelled like the token's address was accepted: user paid {} tokens, shares +{}", declared, paid, w.cw20_balance(&h.lp, user) - lpb)
                            });
                        }
                        Err(_) => {
                            cx.count("bad_deposit:rejected");
                            // (the coins minted for the attempt are burnt again so that the state is unchanged)
                            let _ = w.exec_cosmos(user, cosmwasm_std::BankMsg::Burn { amount: vec![coin(declared, contract_addr)] }.into());
                        }
                    }
                }
                if let AssetInfo::NativeToken { denom } = &h.asset {
                    let declared = 1000u128;
                    let upper = denom.to_uppercase();
                    let funds = match kind.as_str() {
                        "underfunded" => vec![coin(1, denom)],
                        "nothing_attached" => vec![],
                        "lookalike_denom" => vec![coin(declared, &upper)],
                        _ => {
                            let mut f = vec![coin(declared, denom), coin(1, &upper)];
                            f.sort_by(|a, b| a.denom.cmp(&b.denom));
                            f
                        }
                    };
                    let ub = w.native_balance(user, denom);
                    let lpb = w.cw20_balance(&h.lp, user);
                    let r = w.exec(user, &h.vault, &VaultExec::Deposit { amount: Uint128::new(declared) }, &funds);
                    match &r {
                        Ok(_) => {
                            cx.count("bad_deposit:accepted");
                            let paid = ub - w.native_balance(user, denom);
                            cx.check("deposit.user_paid_exactly", paid == declared, || {
                                format!("deposit declaring {} funded as '{}' was accepted: user paid {} of the vault asset, shares +{}", declared, kind, paid, w.cw20_balance(&h.lp, user) - lpb)
                            });
                        }
                        Err(_) => cx.count("bad_deposit:rejected"),
                    }
                }
            }
            VAct::SendLookalike { amount } => {
                if let AssetInfo::NativeToken { denom } = &h.asset {
                    let r = w.exec_cosmos(MALLORY, cosmwasm_std::BankMsg::Send { to_address: h.vault.clone(), amount: vec![coin(*amount as u128, &denom.to_uppercase())] }.into());
                    cx.count(if r.is_ok() { "lookalike:sent" } else { "lookalike:failed" });
                }
            }
            VAct::SetFees { idx } => {
                let f = self.fee_alphabet[*idx];
                let r = w.exec(
                    OWNER,
                    &h.factory,
                    &white_whale_std::vault_network::vault_factory::ExecuteMsg::UpdateVaultConfig {
                        vault_addr: h.vault.clone(),
                        params: UpdateConfigParams { flash_loan_enabled: None, deposit_enabled: None, withdraw_enabled: None, new_owner: None, new_vault_fees: Some(f.vault()), new_fee_collector_addr: None },
                    },
                    &[],
                );
                cx.count(if r.is_ok() { "setfees:ok" } else { "setfees:rejected" });
            }
        }
        // share price never decreases: (B'-P')*S >= (B-P)*S'
        let post = observe(w, h);
        if price_oracles && pre.lp_supply > 0 && post.lp_supply > 0 {
            let lhs = b(post.vault_bal - post.pending.min(post.vault_bal)) * b(pre.lp_supply);
            let rhs = b(pre.vault_bal - pre.pending) * b(post.lp_supply);
            // known-finding class: a nested loan whose inner protocol+flash fees were offset against the outer
            // repayment. It applies only if no shares were minted or burned and the shortfall is at most the
            // inner loans' protocol fees (the ledger grows by them, the balance does not).
            let mut sig = "";
            if let VAct::Loan { amount, script } = a {
                if script.iter().any(|s| matches!(s, Step::Nested { .. })) && post.lp_supply == pre.lp_supply {
                    let f = current_fees(w, h);
                    let outer: u128 = amount.parse().unwrap_or(0);
                    let inner_p: u128 = loans_in(outer, script).iter().skip(1).map(|l| fee_of(f.protocol, *l)).sum();
                    let lhs2 = b(post.vault_bal + inner_p - post.pending.min(post.vault_bal)) * b(pre.lp_supply);
                    if lhs2 >= rhs {
                        sig = "nested-loan-inner-fees-offset";
                    }
                }
            }
            cx.check_sig("share_price.non_decreasing", sig, lhs >= rhs, || {
                format!("{:?}: backing per share fell: ({} - {})/{} -> ({} - {})/{}", a, pre.vault_bal, pre.pending, pre.lp_supply, post.vault_bal, post.pending, post.lp_supply)
            });
        }
        let locked = w.cw20_balance(&h.lp, &h.vault);
        cx.check("min_liquidity.never_decreases", locked >= g.locked, || format!("vault-held shares {} -> {}", g.locked, locked));
        g.locked = locked;
        self.keep_own(cx);
    }

    fn invariants(&self, w: &mut World, h: &VH, g: &VG, cx: &mut Cx) {
        let o = observe(w, h);
        cx.check("solvent.balance_covers_pending_fees", o.vault_bal >= o.pending, || format!("vault balance {} < pending protocol fees {}", o.vault_bal, o.pending));
        cx.check("loan.counter_zero_between_transactions", loan_counter(w, h) == Some(0), || format!("LOAN_COUNTER {:?}", loan_counter(w, h)));
        if o.lp_supply > 0 {
            cx.check("min_liquidity.locked", w.cw20_balance(&h.lp, &h.vault) >= 1000, || "vault holds < 1000 shares".to_string());
        }
        if self.property == "C07" {
            cx.check("ledger.pending_is_charged_minus_transferred", o.pending == g.charged.wrapping_sub(o.collector), || {
                format!("pending ledger {} != charged {} - transferred to collector {}", o.pending, g.charged, o.collector)
            });
            cx.check("ledger.all_time_is_sum_of_charges", o.all_time == g.charged, || format!("all-time {} != sum of charges {}", o.all_time, g.charged));
            cx.check("ledger.burned_is_sum_of_burns", o.burned == g.burned, || format!("burned {} != sum of burn charges {}", o.burned, g.burned));
            cx.check("burn.leaves_circulation", o.supply == g.supply0 - g.burned, || format!("supply {} != initial {} - burned {}", o.supply, g.supply0, g.burned));
        }
        if self.probe_share && o.lp_supply > 0 {
            // C14: Share{amount} == payout of withdrawing `amount` (on a copy)
            let snap = w.kv_clone();
            for u in USERS.iter() {
                let lpb = w.cw20_balance(&h.lp, u);
                let mut amts = vec![1u128, lpb / 2, lpb];
                amts.retain(|x| *x > 0 && *x <= lpb);
                amts.dedup();
                for amt in amts {
                    let q: Result<Uint128, String> = w.query(&h.vault, &VaultQuery::Share { amount: Uint128::new(amt) });
                    let b0 = info_balance(w, &h.asset, u);
                    let r = vault_withdraw(w, h, u, amt);
                    cx.count("probe:share_vs_withdraw");
                    match (q, r) {
                        (Ok(q), Ok(_)) => {
                            let got = info_balance(w, &h.asset, u) - b0;
                            cx.check("share_query.equals_withdrawal", q.u128() == got, || format!("Share{{{}}} = {} but withdrawing paid {}", amt, q, got));
                        }
                        (Ok(q), Err(e)) => {
                            // zero payouts cannot be sent by the bank/cw20: a failing withdrawal of a zero share is not a mismatch
                            cx.check("share_query.equals_withdrawal", q.is_zero(), || format!("Share{{{}}} = {} but withdrawing failed: {}", amt, q, e.msg()));
                        }
                        (Err(e), Ok(_)) => cx.check("share_query.equals_withdrawal", false, || format!("Share{{{}}} failed ({}) but withdrawing succeeded", amt, e)),
                        (Err(_), Err(_)) => {}
                    }
                    w.kv_restore(&snap);
                }
            }
        }
        self.keep_own(cx);
    }
}

pub fn payback_quote(w: &World, h: &VH, amount: u128) -> Option<PaybackAmountResponse> {
    w.query(&h.vault, &VaultQuery::GetPaybackAmount { amount: Uint128::new(amount) }).ok()
}
