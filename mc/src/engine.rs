//! Explicit-state, level-synchronous breadth-first explorer over the real contracts.
//!
//! state       = full chain snapshot (every storage key/value + block) + scenario ghost
//! transition  = one top-level transaction / environment step from the scenario alphabet,
//!               executed on the real code after restoring the snapshot
//! dedup       = 128-bit fingerprint of the *entire* state (no abstraction)
//! oracles     = step oracles (pre/post, evaluated inside `Scenario::step`) and state
//!               invariants, both evaluated on every transition / every reached state
//! bound       = depth (levels completed are reported; caps are reported, never hidden)

use std::collections::{BTreeMap, HashMap};
use std::fmt::Debug;
use std::hash::Hash;
use std::sync::atomic::{AtomicBool, AtomicU64, AtomicUsize, Ordering};
use std::sync::Mutex;
use std::time::Instant;

use serde::de::DeserializeOwned;
use serde::Serialize;
use serde_json::{json, Value};

use crate::world::{fingerprint, Snapshot, World};

#[derive(Clone, Debug)]
pub struct Violation {
    /// stable id of the oracle clause that failed
    pub oracle: String,
    /// signature used to match known findings (class of the failure, not the instance)
    pub sig: String,
    pub detail: String,
}

/// Per-transition context handed to scenarios.
#[derive(Default)]
pub struct Cx {
    pub violations: Vec<Violation>,
    pub counters: BTreeMap<String, u64>,
    /// human readable log of the step (only kept in replay mode)
    pub log: Vec<String>,
    pub verbose: bool,
}
impl Cx {
    pub fn count(&mut self, name: &str) {
        *self.counters.entry(name.to_string()).or_insert(0) += 1;
    }
    pub fn count_n(&mut self, name: &str, n: u64) {
        *self.counters.entry(name.to_string()).or_insert(0) += n;
    }
    pub fn violate(&mut self, oracle: &str, sig: &str, detail: String) {
        self.violations.push(Violation {
            oracle: oracle.to_string(),
            sig: sig.to_string(),
            detail,
        });
    }
    /// check a clause: counts evaluations, records a violation if false
    pub fn check(&mut self, oracle: &str, ok: bool, detail: impl FnOnce() -> String) {
        self.count(&format!("oracle:{oracle}"));
        if !ok {
            let d = detail();
            self.violate(oracle, "", d);
        }
    }
    pub fn check_sig(&mut self, oracle: &str, sig: &str, ok: bool, detail: impl FnOnce() -> String) {
        self.count(&format!("oracle:{oracle}"));
        if !ok {
            let d = detail();
            self.violate(oracle, sig, d);
        }
    }
    pub fn note(&mut self, s: impl FnOnce() -> String) {
        if self.verbose {
            let m = s();
            self.log.push(m);
        }
    }
}

pub trait Scenario: Sync + Send {
    type Action: Clone + Debug + Serialize + DeserializeOwned + Send + Sync;
    type Ghost: Clone + Hash + Debug + Send + Sync;
    type Handles: Clone + Debug + Send + Sync;

    fn name(&self) -> String;
    fn root_labels(&self) -> Vec<String>;
    /// deploy the contracts and run the root's setup prefix on a fresh world
    fn setup(&self, root: usize, w: &mut World) -> (Self::Handles, Self::Ghost);
    fn actions(&self, w: &World, h: &Self::Handles, g: &Self::Ghost, depth: usize) -> Vec<Self::Action>;
    /// execute one action on the real contracts, update the ghost, evaluate step oracles
    fn step(&self, w: &mut World, h: &Self::Handles, g: &mut Self::Ghost, a: &Self::Action, cx: &mut Cx);
    /// state invariants, evaluated in every reached state (may run probes on a copy but
    /// must leave the world as it found it)
    fn invariants(&self, w: &mut World, h: &Self::Handles, g: &Self::Ghost, cx: &mut Cx);
}

#[derive(Clone)]
pub struct Known {
    pub property: String,
    pub id: String,
    pub oracle: String,
    pub sig: String,
    pub what: String,
}

#[derive(Clone)]
pub struct ExploreCfg {
    pub property: String,
    pub tier: String,
    pub depth: usize,
    pub threads: usize,
    pub max_states: u64,
    pub wall_cap_s: f64,
    pub validate: usize,
    pub seed: u64,
    pub roots: Option<Vec<usize>>,
    pub known: Vec<Known>,
}

#[derive(Default, Debug, Clone)]
pub struct Report {
    pub scenario: String,
    pub roots: usize,
    pub depth_target: usize,
    pub depth_completed: usize,
    pub states: u64,
    pub transitions: u64,
    pub validated: u64,
    pub exhaustive: bool,
    pub cap_hit: Option<String>,
    pub counters: BTreeMap<String, u64>,
    pub violations: Vec<(String, Violation)>, // (replay path, violation)
    pub known_hits: BTreeMap<String, (u64, String)>, // id -> (count, what)
    pub samples: Vec<Value>,
    pub alphabet_max: usize,
    pub wall_s: f64,
    pub machinery_error: Option<String>,
}

struct Node<G> {
    snap: Snapshot,
    ghost: G,
    fp: u128,
}

const SHARDS: usize = 64;

struct Visited {
    shards: Vec<Mutex<HashMap<u128, (u128, u32)>>>,
}
impl Visited {
    fn new() -> Self {
        Visited {
            shards: (0..SHARDS).map(|_| Mutex::new(HashMap::new())).collect(),
        }
    }
    fn insert(&self, fp: u128, parent: u128, act: u32) -> bool {
        let mut s = self.shards[(fp as usize) % SHARDS].lock().unwrap();
        if s.contains_key(&fp) {
            false
        } else {
            s.insert(fp, (parent, act));
            true
        }
    }
    fn get(&self, fp: u128) -> Option<(u128, u32)> {
        self.shards[(fp as usize) % SHARDS].lock().unwrap().get(&fp).cloned()
    }
    fn len(&self) -> u64 {
        self.shards.iter().map(|s| s.lock().unwrap().len() as u64).sum()
    }
    fn all_keys(&self) -> Vec<u128> {
        let mut v = vec![];
        for s in &self.shards {
            v.extend(s.lock().unwrap().keys().cloned());
        }
        v
    }
}

struct Interner {
    map: Mutex<(HashMap<String, u32>, Vec<String>)>,
}
impl Interner {
    fn new() -> Self {
        Interner {
            map: Mutex::new((HashMap::new(), vec![])),
        }
    }
    fn id(&self, s: String) -> u32 {
        let mut m = self.map.lock().unwrap();
        if let Some(i) = m.0.get(&s) {
            return *i;
        }
        let i = m.1.len() as u32;
        m.1.push(s.clone());
        m.0.insert(s, i);
        i
    }
    fn get(&self, i: u32) -> String {
        self.map.lock().unwrap().1[i as usize].clone()
    }
    fn len(&self) -> usize {
        self.map.lock().unwrap().1.len()
    }
}

fn merge_counters(into: &mut BTreeMap<String, u64>, from: &BTreeMap<String, u64>) {
    for (k, v) in from {
        *into.entry(k.clone()).or_insert(0) += v;
    }
}

pub fn replay_dir() -> String {
    let d = std::env::var("WWMC_REPLAY_DIR").unwrap_or_else(|_| "/verif/replays".to_string());
    let _ = std::fs::create_dir_all(&d);
    d
}

fn path_of(visited: &Visited, interner: &Interner, root_fp: u128, fp: u128) -> Vec<String> {
    let mut acts = vec![];
    let mut cur = fp;
    while cur != root_fp {
        let (p, a) = visited.get(cur).expect("parent chain broken");
        acts.push(interner.get(a));
        cur = p;
    }
    acts.reverse();
    acts
}

/// Explore one scenario. Returns a report; never prints verdict lines itself.
pub fn explore<S: Scenario>(scn: &S, cfg: &ExploreCfg) -> Report {
    let t0 = Instant::now();
    let labels = scn.root_labels();
    let root_ids: Vec<usize> = cfg.roots.clone().unwrap_or_else(|| (0..labels.len()).collect());
    let mut rep = Report {
        scenario: scn.name(),
        roots: root_ids.len(),
        depth_target: cfg.depth,
        depth_completed: cfg.depth,
        exhaustive: true,
        ..Default::default()
    };
    let stop = AtomicBool::new(false);
    let total_states = AtomicU64::new(0);

    let mut setup_failures: Vec<String> = vec![];
    let harness_panics: Mutex<Vec<String>> = Mutex::new(vec![]);
    for &root in &root_ids {
        if stop.load(Ordering::SeqCst) {
            break;
        }
        // ---- root state (main thread)
        // a root whose set-up transactions no longer go through is skipped and reported as a machinery error
        // (unless another root yields a violation, which takes precedence): it is a harness expectation, not an oracle
        let mut w0 = World::new();
        let set_up = std::panic::catch_unwind(std::panic::AssertUnwindSafe(|| scn.setup(root, &mut w0)));
        let (handles, ghost0) = match set_up {
            Ok(x) => x,
            Err(p) => {
                let msg = p.downcast_ref::<String>().cloned().or_else(|| p.downcast_ref::<&str>().map(|s| s.to_string())).unwrap_or_default();
                setup_failures.push(format!("root '{}' of {}: {}", labels[root], scn.name(), msg.chars().take(300).collect::<String>()));
                continue;
            }
        };
        let snap0 = w0.snapshot();
        let root_fp = fingerprint(&(&snap0, &ghost0));
        {
            let mut cx = Cx::default();
            scn.invariants(&mut w0, &handles, &ghost0, &mut cx);
            merge_counters(&mut rep.counters, &cx.counters);
            for v in cx.violations {
                handle_violation(scn, cfg, &mut rep, root, &labels[root], vec![], v, &stop);
            }
        }
        // setup determinism: a second fresh world must give the same root fingerprint
        {
            let mut w1 = World::new();
            let (_h1, g1) = scn.setup(root, &mut w1);
            let fp1 = fingerprint(&(&w1.snapshot(), &g1));
            if fp1 != root_fp {
                rep.machinery_error = Some(format!(
                    "root {} of {} is not deterministic (fingerprints differ between two fresh setups)",
                    root,
                    scn.name()
                ));
                return rep;
            }
        }
        let visited = Visited::new();
        let interner = Interner::new();
        visited.insert(root_fp, root_fp, u32::MAX);
        let mut frontier: Vec<Node<S::Ghost>> = vec![Node {
            snap: snap0,
            ghost: ghost0,
            fp: root_fp,
        }];
        let transitions = AtomicU64::new(0);
        let alphabet_max = AtomicUsize::new(0);
        let mut depth_done = 0usize;

        for depth in 0..cfg.depth {
            if frontier.is_empty() || stop.load(Ordering::SeqCst) {
                break;
            }
            let next: Mutex<Vec<Node<S::Ghost>>> = Mutex::new(vec![]);
            let idx = AtomicUsize::new(0);
            let last_level = depth + 1 == cfg.depth;
            let thread_counters: Mutex<BTreeMap<String, u64>> = Mutex::new(BTreeMap::new());
            let found: Mutex<Vec<(u128, String, Violation)>> = Mutex::new(vec![]);
            let capped = AtomicBool::new(false);
            let nthreads = cfg.threads.min(frontier.len().max(1));
            std::thread::scope(|sc| {
                for _ in 0..nthreads {
                    sc.spawn(|| {
                        let mut w = World::new();
                        let mut local_next: Vec<Node<S::Ghost>> = vec![];
                        let mut local_counters: BTreeMap<String, u64> = BTreeMap::new();
                        loop {
                            if stop.load(Ordering::Relaxed) || capped.load(Ordering::Relaxed) {
                                break;
                            }
                            let i = idx.fetch_add(1, Ordering::Relaxed);
                            if i >= frontier.len() {
                                break;
                            }
                            if t0.elapsed().as_secs_f64() > cfg.wall_cap_s
                                || total_states.load(Ordering::Relaxed) > cfg.max_states
                                || (i % 256 == 0 && rss_gb() > max_rss_gb())
                            {
                                capped.store(true, Ordering::SeqCst);
                                break;
                            }
                            let node = &frontier[i];
                            w.restore(&node.snap);
                            let acts = scn.actions(&w, &handles, &node.ghost, depth);
                            alphabet_max.fetch_max(acts.len(), Ordering::Relaxed);
                            for a in acts.iter() {
                                w.restore(&node.snap);
                                let mut g = node.ghost.clone();
                                let mut cx = Cx::default();
                                // a panic of the harness itself (not of a contract: those are caught inside World::exec) is a
                                // machinery error with the offending action, never a verdict and never a process abort
                                let stepped = std::panic::catch_unwind(std::panic::AssertUnwindSafe(|| {
                                    scn.step(&mut w, &handles, &mut g, a, &mut cx);
                                    scn.invariants(&mut w, &handles, &g, &mut cx);
                                }));
                                if let Err(p) = stepped {
                                    let msg = p.downcast_ref::<String>().cloned().or_else(|| p.downcast_ref::<&str>().map(|s| s.to_string())).unwrap_or_default();
                                    harness_panics.lock().unwrap().push(format!("{} at action {}", msg, serde_json::to_string(a).unwrap()));
                                    stop.store(true, Ordering::SeqCst);
                                    break;
                                }
                                transitions.fetch_add(1, Ordering::Relaxed);
                                merge_counters(&mut local_counters, &cx.counters);
                                // violations matching a known finding are counted and do not prune
                                // the search; anything else is a new violation
                                let mut tainted = false;
                                if !cx.violations.is_empty() {
                                    let aj = serde_json::to_string(a).unwrap();
                                    for v in cx.violations {
                                        if let Some(k) = cfg.known.iter().find(|k| k.oracle == v.oracle && (k.sig == v.sig || k.sig == "*")) {
                                            *local_counters.entry(format!("known:{}", k.id)).or_insert(0) += 1;
                                        } else {
                                            tainted = true;
                                            found.lock().unwrap().push((node.fp, aj.clone(), v));
                                        }
                                    }
                                }
                                let snap = w.snapshot();
                                let fp = fingerprint(&(&snap, &g));
                                if tainted {
                                    // do not expand states reached through a violating step
                                    continue;
                                }
                                let aid = interner.id(serde_json::to_string(a).unwrap());
                                if visited.insert(fp, node.fp, aid) {
                                    total_states.fetch_add(1, Ordering::Relaxed);
                                    if !last_level {
                                        local_next.push(Node { snap, ghost: g, fp });
                                    }
                                }
                            }
                        }
                        next.lock().unwrap().append(&mut local_next);
                        merge_counters(&mut thread_counters.lock().unwrap(), &local_counters);
                    });
                }
            });
            merge_counters(&mut rep.counters, &thread_counters.lock().unwrap());
            // violations found on this level
            let mut found = found.into_inner().unwrap();
            // deterministic order: shortest detail first is irrelevant; sort by action then oracle
            found.sort_by(|a, b| (a.1.clone(), a.2.oracle.clone(), a.0).cmp(&(b.1.clone(), b.2.oracle.clone(), b.0)));
            for (pfp, aj, v) in found {
                let mut path = path_of(&visited, &interner, root_fp, pfp);
                path.push(aj);
                handle_violation(scn, cfg, &mut rep, root, &labels[root], path, v, &stop);
            }
            if capped.load(Ordering::SeqCst) {
                rep.exhaustive = false;
                rep.cap_hit = Some(format!(
                    "cap hit at root {} depth {} (wall {:.0}s / states {} / rss {:.1} GiB)",
                    root,
                    depth + 1,
                    t0.elapsed().as_secs_f64(),
                    total_states.load(Ordering::Relaxed),
                    rss_gb()
                ));
                rep.depth_completed = rep.depth_completed.min(depth);
                stop.store(true, Ordering::SeqCst);
                break;
            }
            depth_done = depth + 1;
            frontier = next.into_inner().unwrap();
            if std::env::var("WWMC_DEBUG").is_ok() {
                eprintln!("[{}] root {} depth {} -> frontier {} visited {} transitions {}", scn.name(), root, depth + 1, frontier.len(), visited.len(), transitions.load(Ordering::Relaxed));
            }
            // deterministic order of the frontier irrespective of thread timing
            frontier.sort_by_key(|n| n.fp);
        }
        let _ = depth_done;
        rep.states += visited.len();
        rep.transitions += transitions.load(Ordering::Relaxed);
        rep.alphabet_max = rep.alphabet_max.max(alphabet_max.load(Ordering::Relaxed));

        // ---- validation: replay sampled paths from genesis on a fresh world, no snapshots
        if cfg.validate > 0 && rep.machinery_error.is_none() {
            let mut keys = visited.all_keys();
            let seed = (cfg.seed as u128).wrapping_mul(0x9e3779b97f4a7c15f39cc0605cedc835);
            keys.sort_by_key(|k| k ^ seed);
            let per_root = (cfg.validate / root_ids.len().max(1)).max(2);
            for fp in keys.into_iter().take(per_root) {
                let path = path_of(&visited, &interner, root_fp, fp);
                let mut w = World::new();
                let (h, mut g) = scn.setup(root, &mut w);
                for aj in &path {
                    let a: S::Action = serde_json::from_str(aj).unwrap();
                    let mut cx = Cx::default();
                    scn.step(&mut w, &h, &mut g, &a, &mut cx);
                }
                let fp2 = fingerprint(&(&w.snapshot(), &g));
                if fp2 != fp {
                    rep.machinery_error = Some(format!(
                        "validation mismatch in {} root {}: path {:?} reaches a different state when replayed from genesis without snapshots",
                        scn.name(), root, path
                    ));
                    return rep;
                }
                rep.validated += 1;
                if rep.samples.len() < 6 {
                    rep.samples.push(json!({"scenario": scn.name(), "root": labels[root], "actions": path.iter().map(|s| serde_json::from_str::<Value>(s).unwrap()).collect::<Vec<_>>()}));
                }
            }
        }
        let _ = interner.len();
    }
    {
        let hp = harness_panics.lock().unwrap();
        if !hp.is_empty() && rep.machinery_error.is_none() {
            rep.machinery_error = Some(format!("the harness panicked in {} of {}: {}", hp.len(), scn.name(), hp.iter().take(2).cloned().collect::<Vec<_>>().join(" | ")));
        }
    }
    if !setup_failures.is_empty() && rep.machinery_error.is_none() {
        rep.machinery_error = Some(format!("set-up of {} root(s) failed: {}", setup_failures.len(), setup_failures.join(" | ")));
    }
    let known_keys: Vec<String> = rep.counters.keys().filter(|k| k.starts_with("known:")).cloned().collect();
    for key in known_keys {
        let n = rep.counters.remove(&key).unwrap_or(0);
        let id = key["known:".len()..].to_string();
        let what = cfg.known.iter().find(|k| k.id == id).map(|k| k.what.clone()).unwrap_or_default();
        let e = rep.known_hits.entry(id).or_insert((0, what));
        e.0 += n;
    }
    rep.wall_s = t0.elapsed().as_secs_f64();
    rep
}

#[allow(clippy::too_many_arguments)]
fn handle_violation<S: Scenario>(
    scn: &S,
    cfg: &ExploreCfg,
    rep: &mut Report,
    root: usize,
    root_label: &str,
    path: Vec<String>,
    v: Violation,
    stop: &AtomicBool,
) {
    // known finding?
    for k in &cfg.known {
        if k.property == cfg.property && k.oracle == v.oracle && (k.sig == v.sig || k.sig == "*") {
            let e = rep.known_hits.entry(k.id.clone()).or_insert((0, k.what.clone()));
            e.0 += 1;
            return;
        }
    }
    if rep.violations.len() >= 3 {
        stop.store(true, Ordering::SeqCst);
        return;
    }
    let n = rep.violations.len();
    let file = format!(
        "{}/{}-{}-{}.json",
        replay_dir(),
        cfg.property,
        scn.name().replace(|c: char| !c.is_alphanumeric(), "_"),
        n
    );
    let doc = json!({
        "property": cfg.property,
        "tier": cfg.tier,
        "kind": "trace",
        "scenario": scn.name(),
        "root": root,
        "root_label": root_label,
        "actions": path.iter().map(|s| serde_json::from_str::<Value>(s).unwrap()).collect::<Vec<_>>(),
        "oracle": v.oracle,
        "sig": v.sig,
        "detail": v.detail,
    });
    std::fs::write(&file, serde_json::to_string_pretty(&doc).unwrap()).unwrap();
    rep.violations.push((file, v));
    stop.store(true, Ordering::SeqCst);
}

/// Replay a recorded trace on a fresh world, no explorer, no snapshots. Prints each step.
/// Returns true iff the recorded oracle fails again.
/// resident set size of this process in GiB (0 if unknown)
pub fn rss_gb() -> f64 {
    std::fs::read_to_string("/proc/self/statm")
        .ok()
        .and_then(|s| s.split_whitespace().nth(1).and_then(|x| x.parse::<f64>().ok()))
        .map(|pages| pages * 4096.0 / (1u64 << 30) as f64)
        .unwrap_or(0.0)
}

/// memory cap (the frontier holds full state snapshots): reaching it ends the exploration as a capped,
/// non-exhaustive run instead of letting the kernel kill the process
pub fn max_rss_gb() -> f64 {
    std::env::var("WWMC_MAX_RSS_GB").ok().and_then(|s| s.parse().ok()).unwrap_or(36.0)
}

pub fn replay_trace<S: Scenario>(scn: &S, doc: &Value) -> bool {
    // roots are identified by label (a check may explore several root lists); the index is the fallback
    let labels = scn.root_labels();
    let root = match doc["root_label"].as_str().and_then(|l| labels.iter().position(|x| x == l)) {
        Some(i) => i,
        None => doc["root"].as_u64().unwrap() as usize,
    };
    let want = doc["oracle"].as_str().unwrap_or("").to_string();
    let mut w = World::new();
    let (h, mut g) = scn.setup(root, &mut w);
    println!("scenario {} root {} ({})", scn.name(), root, doc["root_label"]);
    let mut reproduced = false;
    {
        let mut cx = Cx { verbose: true, ..Default::default() };
        scn.invariants(&mut w, &h, &g, &mut cx);
        for v in &cx.violations {
            println!("  !! root invariant {} [{}]: {}", v.oracle, v.sig, v.detail);
            if v.oracle == want {
                reproduced = true;
            }
        }
    }
    for (i, aj) in doc["actions"].as_array().unwrap().iter().enumerate() {
        let a: S::Action = serde_json::from_value(aj.clone()).unwrap();
        let mut cx = Cx { verbose: true, ..Default::default() };
        scn.step(&mut w, &h, &mut g, &a, &mut cx);
        scn.invariants(&mut w, &h, &g, &mut cx);
        println!("step {}: {}", i + 1, aj);
        for l in &cx.log {
            println!("    {}", l);
        }
        for v in &cx.violations {
            println!("  !! {} [{}]: {}", v.oracle, v.sig, v.detail);
            if v.oracle == want {
                reproduced = true;
            }
        }
    }
    println!("final state fingerprint {:032x}", fingerprint(&(&w.snapshot(), &g)));
    println!("reproduced={}", reproduced);
    reproduced
}

// ------------------------------------------------------------------------------------------
// Evidence accumulation and verdict output
// ------------------------------------------------------------------------------------------

pub struct Evidence {
    pub property: String,
    pub tier: String,
    pub seed: u64,
    pub t0: Instant,
    pub states: u64,
    pub transitions: u64,
    pub validated: u64,
    pub exhaustive: bool,
    pub caps: Vec<String>,
    pub parts: Vec<Value>,
    pub samples: Vec<Value>,
    pub counters: BTreeMap<String, u64>,
    pub violations: Vec<(String, String)>, // (replay, summary)
    pub known: BTreeMap<String, (u64, String)>,
    pub machinery_errors: Vec<String>,
    pub assumptions: Vec<String>,
    pub distinct_outcomes: BTreeMap<String, u64>,
}

impl Evidence {
    pub fn new(property: &str, tier: &str, seed: u64) -> Self {
        Evidence {
            property: property.to_string(),
            tier: tier.to_string(),
            seed,
            t0: Instant::now(),
            states: 0,
            transitions: 0,
            validated: 0,
            exhaustive: true,
            caps: vec![],
            parts: vec![],
            samples: vec![],
            counters: BTreeMap::new(),
            violations: vec![],
            known: BTreeMap::new(),
            machinery_errors: vec![],
            assumptions: vec![],
            distinct_outcomes: BTreeMap::new(),
        }
    }

    pub fn add_report(&mut self, r: Report) {
        self.states += r.states;
        self.transitions += r.transitions;
        self.validated += r.validated;
        if !r.exhaustive {
            self.exhaustive = false;
        }
        if let Some(c) = &r.cap_hit {
            self.caps.push(format!("{}: {}", r.scenario, c));
        }
        if let Some(e) = &r.machinery_error {
            self.machinery_errors.push(e.clone());
        }
        self.parts.push(json!({
            "kind": "bfs",
            "scenario": r.scenario,
            "roots": r.roots,
            "depth_target": r.depth_target,
            "depth_completed": r.depth_completed,
            "states": r.states,
            "transitions": r.transitions,
            "max_enabled_actions": r.alphabet_max,
            "traces_validated": r.validated,
            "exhaustive_within_bound": r.exhaustive,
            "wall_s": (r.wall_s * 100.0).round() / 100.0,
        }));
        for s in r.samples {
            if self.samples.len() < 12 {
                self.samples.push(s);
            }
        }
        merge_counters(&mut self.counters, &r.counters);
        for (f, v) in r.violations {
            self.violations.push((f, format!("{} [{}] {}", v.oracle, v.sig, v.detail)));
        }
        for (k, (n, what)) in r.known_hits {
            let e = self.known.entry(k).or_insert((0, what));
            e.0 += n;
        }
    }

    /// A fully enumerated finite grid / matrix (depth-1 exploration).
    #[allow(clippy::too_many_arguments)]
    pub fn add_grid(&mut self, name: &str, points: u64, evaluated: u64, rule: &str, samples: Vec<Value>, counters: &BTreeMap<String, u64>) {
        self.states += points;
        self.transitions += evaluated;
        self.parts.push(json!({
            "kind": "grid",
            "name": name,
            "points": points,
            "evaluations": evaluated,
            "rule": rule,
            "exhaustive_within_bound": true,
        }));
        for s in samples {
            if self.samples.len() < 12 {
                self.samples.push(s);
            }
        }
        merge_counters(&mut self.counters, counters);
    }

    /// Fold in the result of an exhaustively enumerated grid; writes a replay file for the
    /// first violations that are not known findings.
    pub fn add_grid_result(
        &mut self,
        name: &str,
        rule: &str,
        res: crate::grid::GridResult,
        point_json: &dyn Fn(usize) -> Value,
        sample_idx: &[usize],
    ) {
        let known = load_known(&self.property);
        let samples: Vec<Value> = sample_idx.iter().filter(|i| (**i as u64) < res.evaluated).map(|i| json!({"grid": name, "point": point_json(*i)})).collect();
        self.add_grid(name, res.evaluated, res.evaluated, rule, samples, &res.counters);
        if std::env::var("WWMC_DEBUG").is_ok() {
            eprintln!("grid {}: violations per class {:?}", name, res.class_totals);
            if std::env::var("WWMC_KEEP_ALL").is_ok() {
                for (i, v) in res.violations.iter() {
                    eprintln!("VIOL {} [{}] {} :: {}", v.oracle, v.sig, point_json(*i), v.detail);
                }
            }
        }
        // known findings are counted from the uncapped per-class totals
        for ((oracle, sig), n_class) in res.class_totals.iter() {
            if let Some(k) = known.iter().find(|k| &k.oracle == oracle && (&k.sig == sig || k.sig == "*")) {
                let e = self.known.entry(k.id.clone()).or_insert((0, k.what.clone()));
                e.0 += *n_class;
            }
        }
        let mut written = 0;
        'outer: for (i, v) in res.violations.iter() {
            for k in &known {
                if k.oracle == v.oracle && (k.sig == v.sig || k.sig == "*") {
                    continue 'outer;
                }
            }
            if written >= 3 {
                continue;
            }
            let file = format!("{}/{}-{}-{}.json", replay_dir(), self.property, name.replace(|c: char| !c.is_alphanumeric(), "_"), self.violations.len());
            let doc = json!({
                "property": self.property,
                "kind": "point",
                "grid": name,
                "point": point_json(*i),
                "oracle": v.oracle,
                "sig": v.sig,
                "detail": v.detail,
            });
            std::fs::write(&file, serde_json::to_string_pretty(&doc).unwrap()).unwrap();
            self.violations.push((file, format!("{} [{}] {}", v.oracle, v.sig, v.detail)));
            written += 1;
        }
    }

    pub fn violation(&mut self, replay: String, summary: String) {
        self.violations.push((replay, summary));
    }

    pub fn require_counter(&mut self, name: &str, min: u64) {
        let v = self.counters.get(name).cloned().unwrap_or(0);
        if v < min {
            self.machinery_errors
                .push(format!("vacuity guard: counter '{}' = {} < {}", name, v, min));
        }
    }

    /// Write evidence, print verdict lines, return the process exit code.
    pub fn finish(self) -> i32 {
        let wall = self.t0.elapsed().as_secs_f64();
        let dir = std::env::var("WWMC_EVIDENCE_DIR").unwrap_or_else(|_| "/verif/evidence".to_string());
        let _ = std::fs::create_dir_all(&dir);
        let mut samples = self.samples.clone();
        if samples.is_empty() {
            samples.push(json!({"note": "no sample recorded"}));
        }
        let oracle_evals: u64 = self
            .counters
            .iter()
            .filter(|(k, _)| k.starts_with("oracle:"))
            .map(|(_, v)| *v)
            .sum();
        let doc = json!({
            "property_id": self.property,
            "tier": self.tier,
            "seed": self.seed,
            "level": "model_checking",
            "coverage": {
                "states": self.states.max(1),
                "transitions": self.transitions.max(1),
                "traces_validated_against_impl": self.validated,
                "samples": samples,
                "exhaustive": self.exhaustive && self.machinery_errors.is_empty(),
                "caps_hit": self.caps,
                "parts": self.parts,
                "oracle_evaluations": oracle_evals,
                "counters": self.counters,
                "known_findings_hit": self.known.iter().map(|(k,(n,w))| json!({"id":k,"count":n,"what":w})).collect::<Vec<_>>(),
                "machinery_errors": self.machinery_errors,
                "explanation": "states = distinct full chain states (all storage + block + ghost) reached, or grid points for enumerated input grids; transitions = real contract transactions / function evaluations executed; every transition ran the step oracles and every state the invariants",
            },
            "assumptions": self.assumptions,
            "wall_s": (wall * 100.0).round() / 100.0,
            "violations": self.violations.len(),
        });
        let path = format!("{}/{}.json", dir, self.property);
        std::fs::write(&path, serde_json::to_string_pretty(&doc).unwrap()).unwrap();

        for (id, (n, what)) in &self.known {
            println!(
                "KNOWN-FINDING: property={} id={} hits={} {}",
                self.property, id, n, what
            );
        }
        if !self.violations.is_empty() {
            for (f, s) in &self.violations {
                eprintln!("violation: {}", s);
                println!("VIOLATION property={} replay={}", self.property, f);
            }
            return 1;
        }
        if !self.machinery_errors.is_empty() {
            for e in &self.machinery_errors {
                eprintln!("MACHINERY-ERROR property={} {}", self.property, e);
            }
            return 2;
        }
        println!(
            "OK property={} tier={} states={} transitions={} validated={} exhaustive={} wall={:.1}s",
            self.property, self.tier, self.states, self.transitions, self.validated, self.exhaustive, wall
        );
        0
    }
}

pub fn load_known(property: &str) -> Vec<Known> {
    let path = std::env::var("WWMC_KNOWN_FILE").unwrap_or_else(|_| "/verif/KNOWN_FINDINGS.txt".to_string());
    let mut out = vec![];
    if let Ok(txt) = std::fs::read_to_string(path) {
        for line in txt.lines() {
            let line = line.trim();
            if !line.starts_with("known:") {
                continue;
            }
            // known: property=C13 id=KF-C13-a oracle=<oracle> sig=<sig> <what>
            let mut prop = String::new();
            let mut id = String::new();
            let mut oracle = String::new();
            let mut sig = String::new();
            let mut what = vec![];
            for tok in line["known:".len()..].split_whitespace() {
                if let Some(v) = tok.strip_prefix("property=") {
                    prop = v.to_string();
                } else if let Some(v) = tok.strip_prefix("id=") {
                    id = v.to_string();
                } else if let Some(v) = tok.strip_prefix("oracle=") {
                    oracle = v.to_string();
                } else if let Some(v) = tok.strip_prefix("sig=") {
                    sig = v.to_string();
                } else {
                    what.push(tok.to_string());
                }
            }
            if prop == property {
                out.push(Known {
                    property: prop,
                    id,
                    oracle,
                    sig,
                    what: what.join(" "),
                });
            }
        }
    }
    out
}

pub fn default_cfg(property: &str, tier: &str, seed: u64, depth: usize) -> ExploreCfg {
    let threads = std::env::var("WWMC_THREADS")
        .ok()
        .and_then(|s| s.parse().ok())
        .unwrap_or_else(|| std::thread::available_parallelism().map(|n| n.get()).unwrap_or(8));
    let depth = std::env::var("WWMC_DEPTH").ok().and_then(|s| s.parse().ok()).unwrap_or(depth);
    ExploreCfg {
        property: property.to_string(),
        tier: tier.to_string(),
        depth,
        threads,
        max_states: if tier == "quick" { 3_000_000 } else { 40_000_000 },
        wall_cap_s: if tier == "quick" { 120.0 } else { 1500.0 },
        validate: if tier == "quick" { 24 } else { 200 },
        seed,
        roots: None,
        known: load_known(property),
    }
}
