//! Full "fee hub" deployment: pool factory + pool router + vault factory + fee collector +
//! whale lair + fee distributor, wired exactly as the repository's integration tests do.

use cosmwasm_std::{Decimal, Uint64};
use white_whale_std::epoch_manager::epoch_manager::EpochConfig;
use white_whale_std::pool_network::asset::AssetInfo;

use crate::deploy::*;
use crate::scn_lair::{BD, DAY_NS};
use crate::world::World;

#[derive(Clone, Debug)]
pub struct FeeHub {
    pub collector: String,
    pub pool_factory: String,
    pub pool_router: String,
    pub vault_factory: String,
    pub lair: String,
    pub distributor: String,
}

pub struct HubOpts {
    pub unbonding_ns: u64,
    pub growth_rate: Decimal,
    pub grace: u64,
    pub genesis_ns: u64,
    pub duration_ns: u64,
    pub distribution: AssetInfo,
    pub native_decimals: Vec<(String, u8)>,
}

impl HubOpts {
    pub fn basic(genesis_ns: u64, grace: u64) -> HubOpts {
        HubOpts {
            unbonding_ns: 1_000_000_000_000,
            growth_rate: Decimal::zero(),
            grace,
            genesis_ns,
            duration_ns: DAY_NS,
            distribution: native(BD[0]),
            native_decimals: vec![(BD[0].to_string(), 6), ("uusdc".to_string(), 6), ("uluna".to_string(), 6)],
        }
    }
}

pub fn deploy_fee_hub(w: &mut World, o: &HubOpts) -> FeeHub {
    let collector = w
        .instantiate(w.codes.fee_collector, OWNER, &white_whale_std::fee_collector::InstantiateMsg {}, &[], "fee_collector", Some(OWNER))
        .expect("collector");
    let pool_factory = w
        .instantiate(
            w.codes.factory,
            OWNER,
            &white_whale_std::pool_network::factory::InstantiateMsg { pair_code_id: w.codes.pair, trio_code_id: w.codes.trio, token_code_id: w.codes.token, fee_collector_addr: collector.clone() },
            &[],
            "pool_factory",
            Some(OWNER),
        )
        .expect("pool factory");
    for (d, n) in &o.native_decimals {
        w.exec(OWNER, &pool_factory, &white_whale_std::pool_network::factory::ExecuteMsg::AddNativeTokenDecimals { denom: d.clone(), decimals: *n }, &[]).expect("decimals");
    }
    let pool_router = w
        .instantiate(w.codes.router, OWNER, &white_whale_std::pool_network::router::InstantiateMsg { terraswap_factory: pool_factory.clone() }, &[], "pool_router", Some(OWNER))
        .expect("pool router");
    let vault_factory = w
        .instantiate(
            w.codes.vault_factory,
            OWNER,
            &white_whale_std::vault_network::vault_factory::InstantiateMsg { owner: OWNER.to_string(), vault_id: w.codes.vault, token_id: w.codes.token, fee_collector_addr: collector.clone() },
            &[],
            "vault_factory",
            Some(OWNER),
        )
        .expect("vault factory");
    let lair = w
        .instantiate(
            w.codes.whale_lair,
            OWNER,
            &white_whale_std::whale_lair::InstantiateMsg { unbonding_period: Uint64::new(o.unbonding_ns), growth_rate: o.growth_rate, bonding_assets: vec![native(BD[0]), native(BD[1])] },
            &[],
            "whale_lair",
            Some(OWNER),
        )
        .expect("lair");
    let distributor = w
        .instantiate(
            w.codes.fee_distributor,
            OWNER,
            &white_whale_std::fee_distributor::InstantiateMsg {
                bonding_contract_addr: lair.clone(),
                fee_collector_addr: collector.clone(),
                grace_period: Uint64::new(o.grace),
                epoch_config: EpochConfig { duration: Uint64::new(o.duration_ns), genesis_epoch: Uint64::new(o.genesis_ns) },
                distribution_asset: o.distribution.clone(),
            },
            &[],
            "fee_distributor",
            Some(OWNER),
        )
        .expect("distributor");
    w.exec(OWNER, &lair, &white_whale_std::whale_lair::ExecuteMsg::UpdateConfig { owner: None, unbonding_period: None, growth_rate: None, fee_distributor_addr: Some(distributor.clone()) }, &[])
        .expect("lair config");
    w.exec(
        OWNER,
        &collector,
        &white_whale_std::fee_collector::ExecuteMsg::UpdateConfig {
            owner: None,
            pool_router: Some(pool_router.clone()),
            fee_distributor: Some(distributor.clone()),
            pool_factory: Some(pool_factory.clone()),
            vault_factory: Some(vault_factory.clone()),
            take_rate: None,
            take_rate_dao_address: None,
            is_take_rate_active: None,
        },
        &[],
    )
    .expect("collector config");
    FeeHub { collector, pool_factory, pool_router, vault_factory, lair, distributor }
}
