//! Router scenario: chain of real pairs A-B (CP), B-C (CP), C-D (stableswap) created by the
//! real factory, the real terraswap_router on top. Serves C14 (multi-hop simulation ==
//! execution) and C15 (minimum_receive).

use cosmwasm_std::{to_json_binary, Decimal, Uint128};
use serde::{Deserialize, Serialize};
use white_whale_std::pool_network::asset::{AssetInfo, PairType};
use white_whale_std::pool_network::router::{Cw20HookMsg as RouterHook, ExecuteMsg as RouterExec, QueryMsg as RouterQuery, SimulateSwapOperationsResponse, SwapOperation};

use crate::deploy::*;
use crate::engine::{Cx, Scenario};
use crate::scn_pair::loose_belief;
use crate::world::{coin, TxResult, World};

pub struct RouterScn {
    pub property: String,
    pub fees: Fee3,
}

#[derive(Clone, Debug)]
pub struct RH {
    pub hub: PoolHub,
    pub router: String,
    pub assets: Vec<AssetInfo>, // A, B, C, D
    pub pairs: Vec<PairH>,      // AB, BC, CD
}

#[derive(Clone, Debug, Serialize, Deserialize)]
pub enum RAct {
    PairSwap { pair: usize, dir: u8, amount: u64 },
}

pub const RCV: [&str; 3] = ["rcvzero", "rcvfive", "rcvbig"];

pub fn ops(h: &RH, path: &[usize]) -> Vec<SwapOperation> {
    path.windows(2)
        .map(|w| SwapOperation::TerraSwap { offer_asset_info: h.assets[w[0]].clone(), ask_asset_info: h.assets[w[1]].clone() })
        .collect()
}

/// all contiguous sub-paths of A-B-C-D with 1..3 hops, both directions
pub fn all_paths() -> Vec<Vec<usize>> {
    let mut v = vec![];
    for len in 2..=4usize {
        for start in 0..=(4 - len) {
            let p: Vec<usize> = (start..start + len).collect();
            let mut r = p.clone();
            r.reverse();
            v.push(p);
            v.push(r);
        }
    }
    v
}

pub fn router_swap(w: &mut World, h: &RH, user: &str, path: &[usize], amount: u128, minimum_receive: Option<u128>, to: Option<&str>, max_spread: Option<Decimal>) -> TxResult {
    let operations = ops(h, path);
    match &h.assets[path[0]] {
        AssetInfo::NativeToken { denom } => w.exec(
            user,
            &h.router,
            &RouterExec::ExecuteSwapOperations { operations, minimum_receive: minimum_receive.map(Uint128::new), to: to.map(|s| s.to_string()), max_spread },
            &[coin(amount, denom)],
        ),
        AssetInfo::Token { contract_addr } => w.exec(
            user,
            contract_addr,
            &cw20::Cw20ExecuteMsg::Send {
                contract: h.router.clone(),
                amount: Uint128::new(amount),
                msg: to_json_binary(&RouterHook::ExecuteSwapOperations { operations, minimum_receive: minimum_receive.map(Uint128::new), to: to.map(|s| s.to_string()), max_spread }).unwrap(),
            },
            &[],
        ),
    }
}

pub fn simulate(w: &World, h: &RH, path: &[usize], amount: u128) -> Result<u128, String> {
    let r: SimulateSwapOperationsResponse = w.query(&h.router, &RouterQuery::SimulateSwapOperations { offer_amount: Uint128::new(amount), operations: ops(h, path) })?;
    Ok(r.amount.u128())
}

impl Scenario for RouterScn {
    type Action = RAct;
    type Ghost = ();
    type Handles = RH;

    fn name(&self) -> String {
        format!("router-{}", self.property)
    }
    fn root_labels(&self) -> Vec<String> {
        vec!["chain A-B-C-D".into()]
    }
    fn setup(&self, _root: usize, w: &mut World) -> (RH, ()) {
        let hub = deploy_pool_hub(w, &[("uaaa", 6), ("uccc", 6), ("uddd", 6)]);
        let tb = w.new_cw20("tbb", 6, &[], OWNER);
        let assets = vec![native("uaaa"), token(&tb), native("uccc"), native("uddd")];
        for u in [ALICE, BOB, MALLORY] {
            for a in &assets {
                fund(w, a, u, 1u128 << 100);
            }
        }
        for (i, a) in assets.iter().enumerate() {
            fund(w, a, RCV[1], 5);
            fund(w, a, RCV[2], 1_000_000_000);
            let _ = i;
        }
        let router = w
            .instantiate(w.codes.router, OWNER, &white_whale_std::pool_network::router::InstantiateMsg { terraswap_factory: hub.factory.clone() }, &[], "router", Some(OWNER))
            .expect("router");
        let mut pairs = vec![];
        for (i, t) in [(0usize, PairType::ConstantProduct), (1, PairType::ConstantProduct), (2, PairType::StableSwap { amp: 100 })] {
            let p = create_pair(w, &hub, [assets[i].clone(), assets[i + 1].clone()], self.fees.pool(), t).expect("pair");
            let amt = [1_000_000_000u128 + i as u128 * 77_000_000, 1_000_000_000u128];
            pair_provide(w, &p, ALICE, amt, None, None).expect("liquidity");
            pairs.push(p);
        }
        (RH { hub, router, assets, pairs }, ())
    }

    fn actions(&self, _w: &World, _h: &RH, _g: &(), _depth: usize) -> Vec<RAct> {
        let mut v = vec![];
        for pair in 0..3 {
            for dir in 0..2u8 {
                for amount in [1_000_000u64, 100_000_000] {
                    v.push(RAct::PairSwap { pair, dir, amount });
                }
            }
        }
        v
    }

    fn step(&self, w: &mut World, h: &RH, _g: &mut (), a: &RAct, cx: &mut Cx) {
        match a {
            RAct::PairSwap { pair, dir, amount } => {
                let p = &h.pairs[*pair];
                let r = pair_swap(w, &p.addr, ALICE, &p.assets[*dir as usize], *amount as u128, loose_belief(), None, None);
                cx.count(if r.is_ok() { "prior_swap:ok" } else { "prior_swap:rejected" });
            }
        }
    }

    fn invariants(&self, w: &mut World, h: &RH, _g: &(), cx: &mut Cx) {
        let snap = w.kv_clone();
        let half = Some(Decimal::percent(50));
        for path in all_paths() {
            let last = *path.last().unwrap();
            for amount in [1_000u128, 1_000_000, 50_000_000] {
                let sim = simulate(w, h, &path, amount);
                if self.property == "C14" {
                    let rb = info_balance(w, &h.assets[last], RCV[1]);
                    let routerb: Vec<u128> = h.assets.iter().map(|a| info_balance(w, a, &h.router)).collect();
                    let ex = router_swap(w, h, MALLORY, &path, amount, None, Some(RCV[1]), half);
                    cx.count("probe:route");
                    match (&sim, &ex) {
                        (Ok(s), Ok(_)) => {
                            cx.count(&format!("probe:route_ok:{}hops", path.len() - 1));
                            let got = info_balance(w, &h.assets[last], RCV[1]) - rb;
                            cx.check("router.simulation_equals_received", got == *s, || format!("route {:?} offer {}: simulated {} but the receiver got {}", path, amount, s, got));
                            let routera: Vec<u128> = h.assets.iter().map(|a| info_balance(w, a, &h.router)).collect();
                            cx.check("router.keeps_nothing", routera == routerb && routerb.iter().all(|x| *x == 0), || format!("router balances {:?} -> {:?}", routerb, routera));
                        }
                        (Ok(s), Err(e)) => {
                            // a hop may legitimately be rejected for spread (> 50%); anything else is a mismatch
                            cx.check("router.simulation_and_execution_agree", e.msg().contains("Spread limit exceeded"), || format!("route {:?} offer {}: simulated {} but execution failed: {}", path, amount, s, e.msg()));
                        }
                        (Err(e), Ok(_)) => cx.check("router.simulation_and_execution_agree", false, || format!("route {:?} offer {}: simulation failed ({}) but execution succeeded", path, amount, e)),
                        (Err(_), Err(_)) => cx.count("probe:route_both_fail"),
                    }
                    w.kv_restore(&snap);
                } else if let Ok(delta) = sim {
                    // C15: minimum_receive around the simulated amount, receivers with pre-existing balances
                    for (ri, rcv) in RCV.iter().enumerate() {
                        if amount != 1_000_000 && ri != 1 {
                            continue;
                        }
                        for m in [delta.saturating_sub(1), delta, delta + 1] {
                            let rb = info_balance(w, &h.assets[last], rcv);
                            let ex = router_swap(w, h, MALLORY, &path, amount, Some(m), Some(rcv), half);
                            cx.count("probe:minimum_receive");
                            match &ex {
                                Ok(_) => {
                                    let got = info_balance(w, &h.assets[last], rcv) - rb;
                                    cx.count("probe:minimum_receive:accepted");
                                    cx.check("minimum_receive.success_implies_balance_grew_by_at_least_m", got >= m, || format!("route {:?} offer {} minimum_receive {}: succeeded but receiver {} only got {}", path, amount, m, rcv, got));
                                    cx.check("minimum_receive.within_limit_not_rejected", true, String::new);
                                }
                                Err(e) => {
                                    let spread = e.msg().contains("Spread limit exceeded");
                                    if !spread {
                                        cx.count("probe:minimum_receive:rejected");
                                        cx.check("minimum_receive.within_limit_not_rejected", m > delta, || format!("route {:?} offer {} minimum_receive {} <= simulated {}: rejected: {}", path, amount, m, delta, e.msg()));
                                    }
                                }
                            }
                            w.kv_restore(&snap);
                        }
                    }
                }
            }
        }
    }
}
