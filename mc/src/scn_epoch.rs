//! C20 — epoch clocks of the epoch-manager (with hook receivers) and of the fee distributor.

use cosmwasm_std::{Empty, Timestamp, Uint64};
use serde::{Deserialize, Serialize};
use white_whale_std::epoch_manager::epoch_manager::{EpochConfig, EpochResponse as MgrEpochResponse, EpochV2, ExecuteMsg as MgrExec, QueryMsg as MgrQuery};

use crate::deploy::*;
use crate::engine::{Cx, Scenario};
use crate::helpers::HookRxQuery;
use crate::hub::{deploy_fee_hub, FeeHub, HubOpts};
use crate::world::{kv_equal, World, GENESIS_TIME_NS};

#[derive(Clone, Debug)]
pub struct ERoot {
    pub label: String,
    pub distributor: bool,
    pub duration_ns: u64,
    pub hooks: usize,
    /// sub-second part of the genesis time
    pub genesis_frac_ns: u64,
    /// genesis at time 0 (the configuration default), i.e. long before the first block
    pub genesis_zero: bool,
}

pub struct EpochScn {
    pub roots: Vec<ERoot>,
}

#[derive(Clone, Debug)]
pub struct EH {
    pub manager: String,
    pub receivers: Vec<String>,
    pub hub: Option<FeeHub>,
    pub root: ERoot,
    pub genesis_ns: u64,
}

#[derive(Clone, Debug, Hash, Default)]
pub struct EG {
    pub id: u64,
    pub start_ns: u64,
    pub registered: Vec<bool>,
    pub log_len: Vec<u64>,
    pub duration_ns: u64,
}

#[derive(Clone, Debug, Serialize, Deserialize)]
pub enum EAct {
    SetTime { kind: String },
    Create { user: String },
    AddHook { i: usize, by: String },
    RemoveHook { i: usize, by: String },
    SetDuration { ns: u64 },
}

pub const GEN_OFFSET: u64 = 4 * 86_400_000_000_000; // genesis = world genesis + 4 days (more than one 3-day duration ahead)

fn mgr_epoch(w: &World, h: &EH) -> Option<(u64, u64)> {
    if h.root.distributor {
        let r: Result<white_whale_std::fee_distributor::EpochResponse, String> = w.query(&h.hub.as_ref().unwrap().distributor, &white_whale_std::fee_distributor::QueryMsg::CurrentEpoch {});
        r.ok().map(|e| (e.epoch.id.u64(), e.epoch.start_time.nanos()))
    } else {
        let r: Result<MgrEpochResponse, String> = w.query(&h.manager, &MgrQuery::CurrentEpoch {});
        r.ok().map(|e| (e.epoch.id, e.epoch.start_time.nanos()))
    }
}
fn logs(w: &World, h: &EH) -> Vec<Vec<EpochV2>> {
    h.receivers.iter().map(|r| w.query::<_, Vec<EpochV2>>(r, &HookRxQuery::Log {}).unwrap_or_default()).collect()
}

impl Scenario for EpochScn {
    type Action = EAct;
    type Ghost = EG;
    type Handles = EH;

    fn name(&self) -> String {
        "epoch-clock".into()
    }
    fn root_labels(&self) -> Vec<String> {
        self.roots.iter().map(|r| r.label.clone()).collect()
    }
    fn setup(&self, root: usize, w: &mut World) -> (EH, EG) {
        let r = &self.roots[root];
        let genesis_ns = if r.genesis_zero { 0 } else { GENESIS_TIME_NS + GEN_OFFSET + r.genesis_frac_ns };
        if r.distributor {
            let mut o = HubOpts::basic(genesis_ns, 2);
            o.duration_ns = r.duration_ns;
            let hub = deploy_fee_hub(w, &o);
            let h = EH { manager: String::new(), receivers: vec![], hub: Some(hub), root: r.clone(), genesis_ns };
            (h, EG { id: 0, start_ns: 0, registered: vec![], log_len: vec![], duration_ns: r.duration_ns })
        } else {
            let manager = w
                .instantiate(
                    w.codes.epoch_manager,
                    OWNER,
                    &white_whale_std::epoch_manager::epoch_manager::InstantiateMsg {
                        start_epoch: EpochV2 { id: 0, start_time: Timestamp::from_nanos(genesis_ns) },
                        epoch_config: EpochConfig { duration: Uint64::new(r.duration_ns), genesis_epoch: Uint64::new(genesis_ns) },
                    },
                    &[],
                    "epoch_manager",
                    Some(OWNER),
                )
                .expect("epoch manager");
            let mut receivers = vec![];
            for i in 0..3 {
                receivers.push(w.instantiate(w.codes.hook_receiver, OWNER, &Empty {}, &[], &format!("hookrx{i}"), None).expect("hook rx"));
            }
            let mut registered = vec![false; 3];
            for i in 0..r.hooks {
                w.exec(OWNER, &manager, &MgrExec::AddHook { contract_addr: receivers[i].clone() }, &[]).expect("add hook");
                registered[i] = true;
            }
            let h = EH { manager, receivers, hub: None, root: r.clone(), genesis_ns };
            (h, EG { id: 0, start_ns: genesis_ns, registered, log_len: vec![0; 3], duration_ns: r.duration_ns })
        }
    }

    fn actions(&self, w: &World, h: &EH, g: &EG, _depth: usize) -> Vec<EAct> {
        let mut v = vec![];
        let now = w.time_ns();
        // time targets relative to genesis and to the next boundary; only forward moves
        let boundary = if h.root.distributor && g.id == 0 { h.genesis_ns } else { g.start_ns + g.duration_ns };
        let targets: Vec<(&str, u64)> = vec![
            ("genesis-duration-1ns", h.genesis_ns.saturating_sub(g.duration_ns + 1)),
            ("genesis-duration", h.genesis_ns.saturating_sub(g.duration_ns)),
            ("genesis-1ns", h.genesis_ns.saturating_sub(1)),
            ("genesis", h.genesis_ns),
            ("boundary-1ns", boundary.saturating_sub(1)),
            ("boundary", boundary),
            ("boundary+1ns", boundary + 1),
            ("boundary+2.5d", boundary + g.duration_ns * 5 / 2),
        ];
        for (k, t) in targets {
            if t > now {
                v.push(EAct::SetTime { kind: k.to_string() });
            }
        }
        v.push(EAct::Create { user: MALLORY.into() });
        if !h.root.distributor {
            for i in 0..2 {
                if g.registered[i] {
                    v.push(EAct::RemoveHook { i, by: OWNER.into() });
                } else {
                    v.push(EAct::AddHook { i, by: OWNER.into() });
                }
            }
            v.push(EAct::AddHook { i: 2, by: MALLORY.into() });
            let other = if g.duration_ns == crate::scn_lair::DAY_NS { 3 * crate::scn_lair::DAY_NS } else { crate::scn_lair::DAY_NS };
            v.push(EAct::SetDuration { ns: other });
        }
        v
    }

    fn step(&self, w: &mut World, h: &EH, g: &mut EG, a: &EAct, cx: &mut Cx) {
        match a {
            EAct::SetTime { kind } => {
                let boundary = if h.root.distributor && g.id == 0 { h.genesis_ns } else { g.start_ns + g.duration_ns };
                let t = match kind.as_str() {
                    "genesis-duration-1ns" => h.genesis_ns.saturating_sub(g.duration_ns + 1),
                    "genesis-duration" => h.genesis_ns.saturating_sub(g.duration_ns),
                    "genesis-1ns" => h.genesis_ns.saturating_sub(1),
                    "genesis" => h.genesis_ns,
                    "boundary-1ns" => boundary.saturating_sub(1),
                    "boundary" => boundary,
                    "boundary+1ns" => boundary + 1,
                    _ => boundary + g.duration_ns * 5 / 2,
                };
                if t > w.time_ns() {
                    let dh = 1;
                    w.set_time_ns(t);
                    w.advance(0, dh);
                }
                cx.count("settime");
            }
            EAct::Create { user } => {
                let now = w.time_ns();
                let before = w.kv_clone();
                let logs_before = logs(w, h);
                let r = if h.root.distributor {
                    w.exec(user, &h.hub.as_ref().unwrap().distributor, &white_whale_std::fee_distributor::ExecuteMsg::NewEpoch {}, &[])
                } else {
                    w.exec(user, &h.manager, &MgrExec::CreateEpoch {}, &[])
                };
                // documented rule
                let first_of_distributor = h.root.distributor && g.id == 0;
                let should = if first_of_distributor { now >= h.genesis_ns } else { now >= g.start_ns && now - g.start_ns >= g.duration_ns };
                cx.check("create.accepted_iff_full_duration_elapsed", r.is_ok() == should, || {
                    format!("creation at t={} (current epoch id {} start {} duration {}): accepted={} expected={} ({:?})", now, g.id, g.start_ns, g.duration_ns, r.is_ok(), should, r.as_ref().err().map(|e| e.msg().to_string()))
                });
                match &r {
                    Ok(_) => {
                        cx.count("create:ok");
                        if now.saturating_sub(if first_of_distributor { h.genesis_ns } else { g.start_ns + g.duration_ns }) >= g.duration_ns {
                            cx.count("create:ok_late");
                        }
                        let want_id = g.id + 1;
                        let want_start = if first_of_distributor { h.genesis_ns } else { g.start_ns + g.duration_ns };
                        let got = mgr_epoch(w, h);
                        cx.check("create.id_plus_one_and_start_plus_duration", got == Some((want_id, want_start)), || format!("after creation current epoch is {:?}, expected id {} start {}", got, want_id, want_start));
                        g.id = want_id;
                        g.start_ns = want_start;
                        // hooks: exactly one notification per registered receiver, carrying the new epoch
                        let logs_after = logs(w, h);
                        for i in 0..h.receivers.len() {
                            let grew = logs_after[i].len() - logs_before[i].len();
                            let want = if g.registered[i] { 1 } else { 0 };
                            let ok_payload = grew == 0 || logs_after[i].last().map(|e| (e.id, e.start_time.nanos())) == Some((want_id, want_start));
                            cx.check("hooks.notified_exactly_once", grew == want && ok_payload, || format!("receiver {} (registered={}) got {} notifications, last {:?}", i, g.registered[i], grew, logs_after[i].last()));
                            g.log_len[i] = logs_after[i].len() as u64;
                            if want == 1 {
                                cx.count("hooks:notified");
                            }
                        }
                    }
                    Err(e) => {
                        cx.count(if e.is_panic() { "create:rejected_panic" } else { "create:rejected" });
                        cx.check("create.rejected_changes_nothing", kv_equal(&before, &w.kv_clone()), || "state changed on a rejected creation".to_string());
                    }
                }
            }
            EAct::AddHook { i, by } | EAct::RemoveHook { i, by } => {
                let add = matches!(a, EAct::AddHook { .. });
                let msg = if add { MgrExec::AddHook { contract_addr: h.receivers[*i].clone() } } else { MgrExec::RemoveHook { contract_addr: h.receivers[*i].clone() } };
                let r = w.exec(by, &h.manager, &msg, &[]);
                if by != OWNER {
                    cx.check("hooks.only_owner_manages", r.is_err(), || "a stranger managed hooks".to_string());
                } else if r.is_ok() {
                    g.registered[*i] = add;
                    cx.count("hook:changed");
                }
            }
            EAct::SetDuration { ns } => {
                let r = w.exec(
                    OWNER,
                    &h.manager,
                    &MgrExec::UpdateConfig { owner: None, epoch_config: Some(EpochConfig { duration: Uint64::new(*ns), genesis_epoch: Uint64::new(h.genesis_ns) }) },
                    &[],
                );
                if r.is_ok() {
                    g.duration_ns = *ns;
                }
            }
        }
    }

    fn invariants(&self, w: &mut World, h: &EH, g: &EG, cx: &mut Cx) {
        let cur = mgr_epoch(w, h);
        cx.check("epoch_query.matches_model", cur == Some((g.id, g.start_ns)), || format!("current epoch {:?}, model id {} start {}", cur, g.id, g.start_ns));
        if !h.root.distributor {
            let l = logs(w, h);
            for i in 0..h.receivers.len() {
                // ids strictly increasing by one within each receiver's log while registered
                let ids: Vec<u64> = l[i].iter().map(|e| e.id).collect();
                let mut ok = true;
                for k in 1..ids.len() {
                    if ids[k] <= ids[k - 1] {
                        ok = false;
                    }
                }
                cx.check("hooks.log_strictly_increasing", ok && l[i].len() as u64 == g.log_len[i], || format!("receiver {} log ids {:?}", i, ids));
            }
        } else {
            // every stored epoch i has start = genesis + (i-1)*duration (gap-free, strictly increasing)
            let d = &h.hub.as_ref().unwrap().distributor;
            for id in 1..=g.id {
                let r: Result<white_whale_std::fee_distributor::EpochResponse, String> = w.query(d, &white_whale_std::fee_distributor::QueryMsg::Epoch { id: Uint64::new(id) });
                let got = r.ok().map(|e| (e.epoch.id.u64(), e.epoch.start_time.nanos()));
                cx.check("epochs.gap_free", got == Some((id, h.genesis_ns + (id - 1) * g.duration_ns)), || format!("epoch {}: {:?}", id, got));
            }
        }
    }
}
