//! C19 — factories and router: one child per asset set; the registry tells the truth.
//! BFS over create / remove / re-create sequences on the real pool factory (pairs, trios),
//! vault factory, incentive factory and router routes.

use std::collections::{BTreeMap, BTreeSet};

use serde::{Deserialize, Serialize};
use white_whale_std::pool_network::asset::{AssetInfo, PairInfo, PairType, TrioInfo};
use white_whale_std::pool_network::factory::{ExecuteMsg as PF, PairsResponse, QueryMsg as PFQ, TriosResponse};
use white_whale_std::pool_network::router::{ExecuteMsg as RouterExec, QueryMsg as RouterQuery, SwapOperation, SwapRoute};
use white_whale_std::vault_network::vault_factory::{ExecuteMsg as VF, QueryMsg as VFQ, VaultsResponse};

use crate::deploy::*;
use crate::engine::{Cx, Scenario};
use crate::world::{coin, World};

pub struct RegistryScn {
    pub group: String, // "pools" | "vaults" | "router"
    pub n_assets: usize,
}

#[derive(Clone, Debug)]
pub struct RegH {
    pub hub: PoolHub,
    pub vault_factory: String,
    pub ifactory: String,
    pub router: String,
    pub assets: Vec<AssetInfo>,
}

#[derive(Clone, Debug, Hash, Default)]
pub struct RegG {
    pub pairs: BTreeMap<Vec<usize>, String>,
    pub trios: BTreeMap<Vec<usize>, String>,
    pub vaults: BTreeMap<usize, String>,
    pub incentives: BTreeMap<usize, String>,
    pub ever: BTreeSet<String>,
    pub routes: BTreeSet<Vec<usize>>,
}

#[derive(Clone, Debug, Serialize, Deserialize)]
pub enum RegAct {
    CreatePair { a: usize, b: usize },
    RemovePair { a: usize, b: usize },
    CreateTrio { a: usize, b: usize, c: usize },
    RemoveTrio { a: usize, b: usize, c: usize },
    CreateVault { a: usize },
    RemoveVault { a: usize },
    CreateIncentive { a: usize },
    AddRoute { path: Vec<usize> },
    RemoveRoute { path: Vec<usize> },
    ExecRoute { path: Vec<usize> },
}

fn key2(a: usize, b: usize) -> Vec<usize> {
    let mut v = vec![a, b];
    v.sort();
    v
}
fn key3(a: usize, b: usize, c: usize) -> Vec<usize> {
    let mut v = vec![a, b, c];
    v.sort();
    v
}
const F: Fee3 = Fee3::new(ONE18 / 1000, 2 * ONE18 / 1000, 0);

fn perms3(s: &[usize]) -> Vec<[usize; 3]> {
    vec![[s[0], s[1], s[2]], [s[0], s[2], s[1]], [s[1], s[0], s[2]], [s[1], s[2], s[0]], [s[2], s[0], s[1]], [s[2], s[1], s[0]]]
}

impl RegistryScn {
    fn trio_sets(&self) -> Vec<Vec<usize>> {
        if self.group == "trios" {
            return vec![vec![0, 1, 2], vec![0, 1, 3], vec![0, 2, 3], vec![1, 2, 3]];
        }
        if self.n_assets >= 4 {
            vec![vec![0, 1, 2], vec![0, 2, 3]]
        } else {
            vec![vec![0, 1, 2]]
        }
    }
    fn route_paths(&self) -> Vec<Vec<usize>> {
        // 1-3 hop paths over assets 0-1-2-3 (chain) plus one path with an unregistered hop
        vec![vec![0, 1], vec![1, 2], vec![0, 1, 2], vec![0, 1, 2, 3], vec![2, 1, 0], vec![0, 2]]
    }
}

impl Scenario for RegistryScn {
    type Action = RegAct;
    type Ghost = RegG;
    type Handles = RegH;

    fn name(&self) -> String {
        format!("registry-{}", self.group)
    }
    fn root_labels(&self) -> Vec<String> {
        vec![format!("{} assets", self.n_assets)]
    }
    fn setup(&self, _root: usize, w: &mut World) -> (RegH, RegG) {
        let natives = ["uaa", "ubb", "ucc"];
        let many = self.group == "vaults-many";
        // "pools-ibc": a plain denom and two ibc voucher denoms whose 64-digit hashes differ only in letter case
        // (bank denoms are case sensitive, so they are different assets)
        // "pools-long": a plain denom and two token-factory denoms of the same creator (a 66-character contract address): both
        // are longer than 64 bytes and share their first 64 bytes
        let ibc = self.group == "pools-ibc" || self.group == "pools-long";
        let (ibc_lower, ibc_upper): (&str, &str) = if self.group == "pools-long" {
            ("factory/migaloo1436kxs0w2es6xlqpp9rd35e3d0cjnw4sv8j3a7483sgks29jqwgsnfqdky4/uusdc", "factory/migaloo1436kxs0w2es6xlqpp9rd35e3d0cjnw4sv8j3a7483sgks29jqwgsnfqdky4/uusdt")
        } else {
            ("ibc/27394fb092d2eccd56123c74f36e4c1f926001ceada9ca97ea622b25f41e5eb2", "ibc/27394FB092D2ECCD56123C74F36E4C1F926001CEADA9CA97EA622B25F41E5EB2")
        };
        // "vaults-prefix": bank denoms of which one is a strict prefix of another (uusd / uusdc, uwhale / uwhalex): their
        // registry keys are in prefix relation too, which is where a listing cursor is easiest to get wrong
        let prefix = self.group == "vaults-prefix";
        let prefix_denoms = ["uusd", "uusdc", "uwhale", "uwhalex", "uatom", "uluna"];
        let n_native = if many || prefix { 0 } else { (self.n_assets + 1) / 2 };
        let mut nd: Vec<(&str, u8)> = natives.iter().take(n_native).enumerate().map(|(i, d)| (*d, 6 + i as u8)).collect();
        if ibc {
            nd = vec![("uaa", 6), (ibc_lower, 6), (ibc_upper, 8)];
        }
        if prefix {
            nd = prefix_denoms.iter().take(self.n_assets).map(|d| (*d, 6u8)).collect();
        }
        let hub = deploy_pool_hub(w, &nd);
        let mut assets: Vec<AssetInfo> = vec![];
        let mut ci = 0;
        for i in 0..self.n_assets {
            if many {
                // more registered children than one default page (10) of the factories' listings holds
                assets.push(native(&format!("uvault{}", (b'a' + i as u8) as char)));
            } else if prefix {
                assets.push(native(prefix_denoms[i]));
            } else if ibc {
                assets.push(native(["uaa", ibc_lower, ibc_upper][i]));
            } else if i % 2 == 0 {
                assets.push(native(natives[i / 2]));
            } else {
                assets.push(token(&w.new_cw20(&format!("tk{}", (b'a' + ci as u8) as char).repeat(1).to_string().replace("tk", "tkk"), 6 + ci as u8, &[], OWNER)));
                ci += 1;
            }
        }
        for a in &assets {
            fund(w, a, ALICE, 1u128 << 90);
            fund(w, a, MALLORY, 1u128 << 90);
        }
        let vault_factory = w
            .instantiate(
                w.codes.vault_factory,
                OWNER,
                &white_whale_std::vault_network::vault_factory::InstantiateMsg { owner: OWNER.into(), vault_id: w.codes.vault, token_id: w.codes.token, fee_collector_addr: hub.collector.clone() },
                &[],
                "vault_factory",
                Some(OWNER),
            )
            .unwrap();
        let mock = w.instantiate(w.codes.fee_distributor_mock, OWNER, &fee_distributor_mock::msg::InstantiateMsg {}, &[], "mock", None).unwrap();
        let ifactory = w
            .instantiate(
                w.codes.incentive_factory,
                OWNER,
                &white_whale_std::pool_network::incentive_factory::InstantiateMsg {
                    fee_collector_addr: hub.collector.clone(),
                    fee_distributor_addr: mock,
                    create_flow_fee: asset(&native("uaa"), 1000),
                    max_concurrent_flows: 3,
                    incentive_code_id: w.codes.incentive,
                    max_flow_epoch_buffer: 14,
                    min_unbonding_duration: 86_400,
                    max_unbonding_duration: 31_556_926,
                },
                &[],
                "ifactory",
                Some(OWNER),
            )
            .unwrap();
        let router = w.instantiate(w.codes.router, OWNER, &white_whale_std::pool_network::router::InstantiateMsg { terraswap_factory: hub.factory.clone() }, &[], "router", Some(OWNER)).unwrap();
        let h = RegH { hub, vault_factory, ifactory, router, assets };
        let mut g = RegG::default();
        if many {
            let mut cx = Cx::default();
            for i in 0..self.n_assets - 1 {
                self.step(w, &h, &mut g, &RegAct::CreateVault { a: i }, &mut cx);
                self.step(w, &h, &mut g, &RegAct::CreateIncentive { a: i }, &mut cx);
            }
            assert!(cx.violations.is_empty(), "set-up of the many-vaults registry violates oracles: {:?}", cx.violations);
        }
        if self.group == "router" {
            // chain 0-1, 1-2, 2-3 with liquidity
            let mut cx = Cx::default();
            for i in 0..self.n_assets - 1 {
                self.step(w, &h, &mut g, &RegAct::CreatePair { a: i, b: i + 1 }, &mut cx);
                let addr = g.pairs.get(&key2(i, i + 1)).unwrap().clone();
                let pi: PairInfo = w.query(&addr, &white_whale_std::pool_network::pair::QueryMsg::Pair {}).unwrap();
                let lp = match pi.liquidity_token {
                    AssetInfo::Token { contract_addr } => contract_addr,
                    AssetInfo::NativeToken { denom } => denom,
                };
                let p = PairH { addr, lp, assets: [pi.asset_infos[0].clone(), pi.asset_infos[1].clone()], decimals: pi.asset_decimals };
                pair_provide(w, &p, ALICE, [1_000_000_000, 1_000_000_000], None, None).unwrap();
            }
        }
        (h, g)
    }

    fn actions(&self, _w: &World, _h: &RegH, g: &RegG, _depth: usize) -> Vec<RegAct> {
        let mut v = vec![];
        let n = self.n_assets;
        match self.group.as_str() {
            "pools-ibc" | "pools-long" => {
                for (a, bb) in [(0usize, 1usize), (0, 2), (1, 0), (2, 0), (1, 2)] {
                    v.push(RegAct::CreatePair { a, b: bb });
                    v.push(RegAct::RemovePair { a, b: bb });
                }
            }
            "pools" => {
                for a in 0..n {
                    for bb in 0..n {
                        if a != bb {
                            v.push(RegAct::CreatePair { a, b: bb });
                            v.push(RegAct::RemovePair { a, b: bb });
                        }
                    }
                }
                for s in self.trio_sets() {
                    for p in perms3(&s) {
                        v.push(RegAct::CreateTrio { a: p[0], b: p[1], c: p[2] });
                        v.push(RegAct::RemoveTrio { a: p[0], b: p[1], c: p[2] });
                    }
                }
                v.push(RegAct::CreatePair { a: 0, b: 0 });
            }
            "trios" => {
                for s in self.trio_sets() {
                    for p in perms3(&s) {
                        v.push(RegAct::CreateTrio { a: p[0], b: p[1], c: p[2] });
                    }
                    // removal in two of the six orders
                    v.push(RegAct::RemoveTrio { a: s[0], b: s[1], c: s[2] });
                    v.push(RegAct::RemoveTrio { a: s[2], b: s[0], c: s[1] });
                }
            }
            "vaults-many" => {
                // one asset inside the first default page, the last ones of the listing, and the unregistered one
                for a in [0, n - 3, n - 2, n - 1] {
                    v.push(RegAct::CreateVault { a });
                    v.push(RegAct::RemoveVault { a });
                    v.push(RegAct::CreateIncentive { a });
                }
            }
            "vaults" | "vaults-prefix" => {
                for a in 0..n {
                    v.push(RegAct::CreateVault { a });
                    v.push(RegAct::RemoveVault { a });
                    v.push(RegAct::CreateIncentive { a });
                }
            }
            _ => {
                for p in self.route_paths() {
                    v.push(RegAct::AddRoute { path: p.clone() });
                    if g.routes.contains(&p) {
                        v.push(RegAct::RemoveRoute { path: p.clone() });
                    }
                    v.push(RegAct::ExecRoute { path: p });
                }
                v.push(RegAct::RemovePair { a: 1, b: 2 });
                v.push(RegAct::CreatePair { a: 1, b: 2 });
            }
        }
        v
    }

    fn step(&self, w: &mut World, h: &RegH, g: &mut RegG, a: &RegAct, cx: &mut Cx) {
        let ai = |i: usize| h.assets[i].clone();
        match a {
            RegAct::CreatePair { a: x, b: y } => {
                let r = w.exec(OWNER, &h.hub.factory, &PF::CreatePair { asset_infos: [ai(*x), ai(*y)], pool_fees: F.pool(), pair_type: PairType::ConstantProduct, token_factory_lp: false }, &[]);
                let k = key2(*x, *y);
                let should = x != y && !g.pairs.contains_key(&k);
                cx.check("create.one_child_per_asset_set", r.is_ok() == should, || format!("CreatePair({},{}) accepted={} but an entry for that set exists={} (same asset={})", x, y, r.is_ok(), g.pairs.contains_key(&k), x == y));
                if r.is_ok() {
                    cx.count("pair:created");
                    let pi: Result<PairInfo, String> = w.query(&h.hub.factory, &PFQ::Pair { asset_infos: [ai(*x), ai(*y)] });
                    if let Ok(pi) = pi {
                        cx.check("create.new_address_each_time", !g.ever.contains(&pi.contract_addr), || format!("re-created pair got an address used before: {}", pi.contract_addr));
                        if g.ever.iter().any(|_| true) && !g.pairs.is_empty() {
                            cx.count("pair:created_with_others_present");
                        }
                        g.ever.insert(pi.contract_addr.clone());
                        g.pairs.insert(k, pi.contract_addr);
                    }
                } else if !should {
                    cx.count("pair:duplicate_rejected");
                }
            }
            RegAct::RemovePair { a: x, b: y } => {
                let r = w.exec(OWNER, &h.hub.factory, &PF::RemovePair { asset_infos: [ai(*x), ai(*y)] }, &[]);
                let k = key2(*x, *y);
                cx.check("remove.accepted_iff_registered", r.is_ok() == g.pairs.contains_key(&k), || format!("RemovePair({},{}) accepted={} registered={}", x, y, r.is_ok(), g.pairs.contains_key(&k)));
                if r.is_ok() {
                    cx.count("pair:removed");
                    g.pairs.remove(&k);
                }
            }
            RegAct::CreateTrio { a: x, b: y, c: z } => {
                let r = w.exec(OWNER, &h.hub.factory, &PF::CreateTrio { asset_infos: [ai(*x), ai(*y), ai(*z)], pool_fees: F.trio(), amp_factor: 100, token_factory_lp: false }, &[]);
                let k = key3(*x, *y, *z);
                let should = !g.trios.contains_key(&k);
                cx.check("create.one_child_per_asset_set", r.is_ok() == should, || format!("CreateTrio({},{},{}) accepted={} exists={}", x, y, z, r.is_ok(), !should));
                if r.is_ok() {
                    cx.count("trio:created");
                    let ti: Result<TrioInfo, String> = w.query(&h.hub.factory, &PFQ::Trio { asset_infos: [ai(*x), ai(*y), ai(*z)] });
                    if let Ok(ti) = ti {
                        cx.check("create.new_address_each_time", !g.ever.contains(&ti.contract_addr), || "re-created trio reused an address".to_string());
                        g.ever.insert(ti.contract_addr.clone());
                        g.trios.insert(k, ti.contract_addr);
                    }
                } else if !should {
                    cx.count("trio:duplicate_rejected");
                }
            }
            RegAct::RemoveTrio { a: x, b: y, c: z } => {
                let r = w.exec(OWNER, &h.hub.factory, &PF::RemoveTrio { asset_infos: [ai(*x), ai(*y), ai(*z)] }, &[]);
                let k = key3(*x, *y, *z);
                cx.check("remove.accepted_iff_registered", r.is_ok() == g.trios.contains_key(&k), || format!("RemoveTrio accepted={} registered={}", r.is_ok(), g.trios.contains_key(&k)));
                if r.is_ok() {
                    cx.count("trio:removed");
                    g.trios.remove(&k);
                }
            }
            RegAct::CreateVault { a: x } => {
                let r = w.exec(OWNER, &h.vault_factory, &VF::CreateVault { asset_info: ai(*x), fees: F.vault(), token_factory_lp: false }, &[]);
                let should = !g.vaults.contains_key(x);
                cx.check("create.one_child_per_asset_set", r.is_ok() == should, || format!("CreateVault({}) accepted={} exists={} ({:?})", x, r.is_ok(), !should, r.as_ref().err().map(|e| e.msg().chars().rev().take(160).collect::<String>().chars().rev().collect::<String>())));
                if r.is_ok() {
                    cx.count("vault:created");
                    let addr: Option<String> = w.query(&h.vault_factory, &VFQ::Vault { asset_info: ai(*x) }).unwrap_or(None);
                    if let Some(addr) = addr {
                        cx.check("create.new_address_each_time", !g.ever.contains(&addr), || "re-created vault reused an address".to_string());
                        g.ever.insert(addr.clone());
                        g.vaults.insert(*x, addr);
                    }
                }
            }
            RegAct::RemoveVault { a: x } => {
                let r = w.exec(OWNER, &h.vault_factory, &VF::RemoveVault { asset_info: ai(*x) }, &[]);
                cx.check("remove.accepted_iff_registered", r.is_ok() == g.vaults.contains_key(x), || format!("RemoveVault({}) accepted={} registered={}", x, r.is_ok(), g.vaults.contains_key(x)));
                if r.is_ok() {
                    cx.count("vault:removed");
                    g.vaults.remove(x);
                }
            }
            RegAct::CreateIncentive { a: x } => {
                let r = w.exec(OWNER, &h.ifactory, &white_whale_std::pool_network::incentive_factory::ExecuteMsg::CreateIncentive { lp_asset: ai(*x) }, &[]);
                let should = !g.incentives.contains_key(x);
                cx.check("create.one_child_per_asset_set", r.is_ok() == should, || format!("CreateIncentive({}) accepted={} exists={}", x, r.is_ok(), !should));
                if r.is_ok() {
                    cx.count("incentive:created");
                    let addr: white_whale_std::pool_network::incentive_factory::IncentiveResponse = w.query(&h.ifactory, &white_whale_std::pool_network::incentive_factory::QueryMsg::Incentive { lp_asset: ai(*x) }).unwrap_or(None);
                    if let Some(addr) = addr {
                        g.incentives.insert(*x, addr.to_string());
                    }
                }
            }
            RegAct::AddRoute { path } | RegAct::RemoveRoute { path } => {
                let ops: Vec<SwapOperation> = path.windows(2).map(|p| SwapOperation::TerraSwap { offer_asset_info: ai(p[0]), ask_asset_info: ai(p[1]) }).collect();
                let route = SwapRoute { offer_asset_info: ai(path[0]), ask_asset_info: ai(*path.last().unwrap()), swap_operations: ops };
                let add = matches!(a, RegAct::AddRoute { .. });
                let r = if add { w.exec(OWNER, &h.router, &RouterExec::AddSwapRoutes { swap_routes: vec![route] }, &[]) } else { w.exec(OWNER, &h.router, &RouterExec::RemoveSwapRoutes { swap_routes: vec![route] }, &[]) };
                if add {
                    let all_registered = path.windows(2).all(|p| g.pairs.contains_key(&key2(p[0], p[1])));
                    // one direction only, as the property states (a registered but empty pool makes the
                    // router's validation swap fail, which is not a violation)
                    cx.check("routes.stored_only_if_every_hop_is_registered", !r.is_ok() || all_registered, || format!("AddSwapRoutes {:?} was accepted although a hop is not a registered pair", path));
                    if r.is_err() && all_registered {
                        cx.count("route:rejected_although_registered(empty pool)");
                    }
                    if r.is_ok() {
                        cx.count("route:added");
                        g.routes.insert(path.clone());
                    } else {
                        cx.count("route:rejected");
                    }
                } else if r.is_ok() {
                    g.routes.remove(path);
                }
            }
            RegAct::ExecRoute { path } => {
                let ops: Vec<SwapOperation> = path.windows(2).map(|p| SwapOperation::TerraSwap { offer_asset_info: ai(p[0]), ask_asset_info: ai(p[1]) }).collect();
                let amount = 1_000_000u128;
                let r = match &h.assets[path[0]] {
                    AssetInfo::NativeToken { denom } => w.exec(MALLORY, &h.router, &RouterExec::ExecuteSwapOperations { operations: ops, minimum_receive: None, to: None, max_spread: None }, &[coin(amount, denom)]),
                    AssetInfo::Token { contract_addr } => w.exec(
                        MALLORY,
                        contract_addr,
                        &cw20::Cw20ExecuteMsg::Send {
                            contract: h.router.clone(),
                            amount: cosmwasm_std::Uint128::new(amount),
                            msg: cosmwasm_std::to_json_binary(&white_whale_std::pool_network::router::Cw20HookMsg::ExecuteSwapOperations { operations: ops, minimum_receive: None, to: None, max_spread: None }).unwrap(),
                        },
                        &[],
                    ),
                };
                let all_registered = path.windows(2).all(|p| g.pairs.contains_key(&key2(p[0], p[1])));
                match &r {
                    Ok(resp) => {
                        cx.count("route:executed");
                        cx.check("routes.executed_only_through_registered_pairs", all_registered, || format!("route {:?} executed although a hop's pair is not registered", path));
                        // every pair contract that emitted a swap event must be a currently registered pair
                        let registered: BTreeSet<String> = g.pairs.values().cloned().collect();
                        for ev in resp.events.iter().filter(|e| e.ty == "wasm") {
                            if ev.attributes.iter().any(|x| x.key == "action" && x.value == "swap") {
                                let c = ev.attributes.iter().find(|x| x.key == "_contract_addr").map(|x| x.value.clone()).unwrap_or_default();
                                cx.check("routes.executed_only_through_registered_pairs", registered.contains(&c), || format!("route {:?} swapped through {} which is not a registered pair", path, c));
                            }
                        }
                    }
                    Err(_) => {
                        cx.count("route:exec_rejected");
                        if !all_registered {
                            cx.count("route:exec_rejected_unregistered_hop");
                        }
                    }
                }
            }
        }
    }

    fn invariants(&self, w: &mut World, h: &RegH, g: &RegG, cx: &mut Cx) {
        let ai = |i: usize| h.assets[i].clone();
        let n = self.n_assets;
        if self.group.starts_with("pools") || self.group == "router" || self.group == "trios" {
            // point queries, both orders, every unordered set
            for a in 0..n {
                for bb in 0..n {
                    if a == bb {
                        continue;
                    }
                    let r: Result<PairInfo, String> = w.query(&h.hub.factory, &PFQ::Pair { asset_infos: [ai(a), ai(bb)] });
                    match (g.pairs.get(&key2(a, bb)), r) {
                        (Some(addr), Ok(pi)) => {
                            cx.check("registry.point_query_matches", &pi.contract_addr == addr, || format!("Pair({},{}) -> {} but registered {}", a, bb, pi.contract_addr, addr));
                            let child: Result<PairInfo, String> = w.query(addr, &white_whale_std::pool_network::pair::QueryMsg::Pair {});
                            cx.check("registry.entry_equals_what_the_child_reports", child.as_ref().ok() == Some(&pi), || format!("factory says {:?}, child says {:?}", pi, child));
                            let set_ok = { let mut x = vec![pi.asset_infos[0].to_string(), pi.asset_infos[1].to_string()]; x.sort(); let mut y = vec![ai(a).to_string(), ai(bb).to_string()]; y.sort(); x == y };
                            cx.check("registry.entry_assets_are_the_requested_set", set_ok, || format!("Pair({},{}) returned assets {:?}", a, bb, pi.asset_infos));
                        }
                        (None, Err(_)) => {}
                        (Some(addr), Err(e)) => cx.check("registry.point_query_matches", false, || format!("registered pair {} not found by Pair({},{}): {}", addr, a, bb, e)),
                        (None, Ok(pi)) => cx.check("registry.removed_entry_disappears", false, || format!("Pair({},{}) returns {} although not registered", a, bb, pi.contract_addr)),
                    }
                }
            }
            // listing + pagination
            let full: PairsResponse = w.query(&h.hub.factory, &PFQ::Pairs { start_after: None, limit: Some(30) }).expect("pairs");
            let listed: Vec<String> = full.pairs.iter().map(|p| p.contract_addr.clone()).collect();
            let want: BTreeSet<String> = g.pairs.values().cloned().collect();
            let got: BTreeSet<String> = listed.iter().cloned().collect();
            cx.check("registry.listing_is_exactly_the_registered_set", got == want && listed.len() == want.len(), || format!("Pairs lists {:?}, registered {:?}", listed, want));
            for limit in 1..=(listed.len() as u32 + 1) {
                let mut acc: Vec<String> = vec![];
                let mut cursor: Option<[AssetInfo; 2]> = None;
                for _ in 0..(listed.len() + 2) {
                    let page: PairsResponse = w.query(&h.hub.factory, &PFQ::Pairs { start_after: cursor.clone(), limit: Some(limit) }).expect("pairs page");
                    if page.pairs.is_empty() {
                        break;
                    }
                    cursor = page.pairs.last().map(|p| [p.asset_infos[0].clone(), p.asset_infos[1].clone()]);
                    acc.extend(page.pairs.iter().map(|p| p.contract_addr.clone()));
                }
                cx.count("pagination:evaluated");
                cx.check("pagination.returns_every_entry_exactly_once", acc == listed, || format!("Pairs with limit {}: pages give {:?}, full listing {:?}", limit, acc, listed));
            }
            for s in self.trio_sets() {
                for p in perms3(&s) {
                    let r: Result<TrioInfo, String> = w.query(&h.hub.factory, &PFQ::Trio { asset_infos: [ai(p[0]), ai(p[1]), ai(p[2])] });
                    match (g.trios.get(&key3(p[0], p[1], p[2])), r) {
                        (Some(addr), Ok(ti)) => {
                            cx.check("registry.point_query_matches", &ti.contract_addr == addr, || "Trio point query mismatch".to_string());
                            let child: Result<TrioInfo, String> = w.query(addr, &white_whale_std::pool_network::trio::QueryMsg::Trio {});
                            cx.check("registry.entry_equals_what_the_child_reports", child.as_ref().ok() == Some(&ti), || format!("factory says {:?}, trio says {:?}", ti, child));
                        }
                        (None, Err(_)) => {}
                        (Some(_), Err(e)) => cx.check("registry.point_query_matches", false, || format!("registered trio not found: {}", e)),
                        (None, Ok(_)) => cx.check("registry.removed_entry_disappears", false, || "Trio query returns a removed trio".to_string()),
                    }
                }
            }
            let full: TriosResponse = w.query(&h.hub.factory, &PFQ::Trios { start_after: None, limit: Some(30) }).expect("trios");
            let listed: Vec<String> = full.trios.iter().map(|p| p.contract_addr.clone()).collect();
            let want: BTreeSet<String> = g.trios.values().cloned().collect();
            cx.check("registry.listing_is_exactly_the_registered_set", listed.iter().cloned().collect::<BTreeSet<_>>() == want && listed.len() == want.len(), || format!("Trios lists {:?}, registered {:?}", listed, want));
            for limit in 1..=(listed.len() as u32 + 1) {
                let mut acc: Vec<String> = vec![];
                let mut cursor: Option<[AssetInfo; 3]> = None;
                for _ in 0..(listed.len() + 2) {
                    let page: TriosResponse = w.query(&h.hub.factory, &PFQ::Trios { start_after: cursor.clone(), limit: Some(limit) }).expect("trios page");
                    if page.trios.is_empty() {
                        break;
                    }
                    cursor = page.trios.last().map(|p| p.asset_infos.clone());
                    acc.extend(page.trios.iter().map(|p| p.contract_addr.clone()));
                }
                if listed.len() >= 2 {
                    cx.count("pagination:trios_multi_entry");
                }
                cx.check("pagination.returns_every_entry_exactly_once", acc == listed, || format!("Trios with limit {}: {:?} vs {:?}", limit, acc, listed));
            }
        }
        if self.group.starts_with("vaults") {
            for a in 0..n {
                let r: Result<Option<String>, String> = w.query(&h.vault_factory, &VFQ::Vault { asset_info: ai(a) });
                let got = r.unwrap_or(None);
                cx.check("registry.point_query_matches", got.as_ref() == g.vaults.get(&a), || format!("Vault({}) -> {:?}, registered {:?}", a, got, g.vaults.get(&a)));
                if let Some(addr) = g.vaults.get(&a) {
                    let c: Result<white_whale_std::vault_network::vault::Config, String> = w.query(addr, &white_whale_std::vault_network::vault::QueryMsg::Config {});
                    cx.check("registry.entry_equals_what_the_child_reports", c.as_ref().map(|c| c.asset_info == ai(a)).unwrap_or(false), || format!("vault {} reports asset {:?}", addr, c.map(|c| c.asset_info)));
                }
                let r: Result<white_whale_std::pool_network::incentive_factory::IncentiveResponse, String> = w.query(&h.ifactory, &white_whale_std::pool_network::incentive_factory::QueryMsg::Incentive { lp_asset: ai(a) });
                let got = r.unwrap_or(None).map(|x| x.to_string());
                cx.check("registry.point_query_matches", got.as_ref() == g.incentives.get(&a), || format!("Incentive({}) -> {:?}, registered {:?}", a, got, g.incentives.get(&a)));
                if let Some(addr) = g.incentives.get(&a) {
                    let c: Result<white_whale_std::pool_network::incentive::Config, String> = w.query(addr, &white_whale_std::pool_network::incentive::QueryMsg::Config {});
                    cx.check("registry.entry_equals_what_the_child_reports", c.as_ref().map(|c| c.lp_asset == ai(a)).unwrap_or(false), || format!("incentive {} reports lp asset {:?}", addr, c.map(|c| c.lp_asset)));
                }
            }
            let full: VaultsResponse = w.query(&h.vault_factory, &VFQ::Vaults { start_after: None, limit: Some(30) }).expect("vaults");
            let listed: Vec<String> = full.vaults.iter().map(|v| v.vault.clone()).collect();
            let want: BTreeSet<String> = g.vaults.values().cloned().collect();
            cx.check("registry.listing_is_exactly_the_registered_set", listed.iter().cloned().collect::<BTreeSet<_>>() == want && listed.len() == want.len(), || format!("Vaults lists {:?}, registered {:?}", listed, want));
            for limit in 1..=(listed.len() as u32 + 1) {
                let mut acc: Vec<String> = vec![];
                let mut cursor: Option<Vec<u8>> = None;
                for _ in 0..(listed.len() + 2) {
                    let page: VaultsResponse = w.query(&h.vault_factory, &VFQ::Vaults { start_after: cursor.clone(), limit: Some(limit) }).expect("vaults page");
                    if page.vaults.is_empty() {
                        break;
                    }
                    cursor = page.vaults.last().map(|v| v.asset_info_reference.clone());
                    acc.extend(page.vaults.iter().map(|v| v.vault.clone()));
                }
                cx.count("pagination:evaluated");
                cx.check("pagination.returns_every_entry_exactly_once", acc == listed, || format!("Vaults with limit {}: {:?} vs {:?}", limit, acc, listed));
            }
            let incs: Result<white_whale_std::pool_network::incentive_factory::IncentivesResponse, String> = w.query(&h.ifactory, &white_whale_std::pool_network::incentive_factory::QueryMsg::Incentives { start_after: None, limit: Some(30) });
            if let Ok(incs) = incs {
                let listed: BTreeSet<String> = incs.iter().map(|i| i.incentive_address.to_string()).collect();
                let want: BTreeSet<String> = g.incentives.values().cloned().collect();
                cx.check("registry.listing_is_exactly_the_registered_set", listed == want && incs.len() == want.len(), || format!("Incentives lists {:?}, registered {:?}", listed, want));
            }
        }
        if self.group == "router" {
            // stored routes == model
            for p in self.route_paths() {
                let r: Result<Vec<SwapOperation>, String> = w.query(&h.router, &RouterQuery::SwapRoute { offer_asset_info: ai(p[0]), ask_asset_info: ai(*p.last().unwrap()) });
                let stored_paths: Vec<&Vec<usize>> = g.routes.iter().filter(|q| q[0] == p[0] && q.last() == p.last()).collect();
                cx.check("routes.query_matches_model", r.is_ok() == !stored_paths.is_empty(), || format!("SwapRoute({} -> {}) stored={} model={:?}", p[0], p.last().unwrap(), r.is_ok(), stored_paths));
            }
        }
    }
}
