mod big;
mod checks;
mod deploy;
mod engine;
mod fullhub;
mod grid;
mod helpers;
mod refmath;
mod hub;
mod scn_config;
mod scn_dist;
mod scn_epoch;
mod scn_incentive;
mod scn_lair;
mod scn_pair;
mod scn_registry;
mod scn_router;
mod scn_trio;
mod scn_vault;
mod world;

use serde_json::Value;

fn usage() -> ! {
    eprintln!("usage: wwmc check <Cxx> [--tier quick|thorough] | wwmc replay <file>");
    std::process::exit(2)
}

fn main() {
    world::install_quiet_panic_hook();
    let args: Vec<String> = std::env::args().collect();
    if args.len() < 3 {
        usage();
    }
    let seed: u64 = std::env::var("VERIF_SEED").ok().and_then(|s| s.parse().ok()).unwrap_or(1);
    match args[1].as_str() {
        "check" => {
            let id = args[2].as_str();
            let mut tier = std::env::var("VERIF_TIER").unwrap_or_else(|_| "quick".to_string());
            if let Some(i) = args.iter().position(|a| a == "--tier") {
                tier = args[i + 1].clone();
            }
            // a panic of the harness outside the explorer (e.g. while building a fixture) is a machinery error (exit 2) with
            // the message, never a bare crash
            let code = std::panic::catch_unwind(std::panic::AssertUnwindSafe(|| match id {
                "C01" => checks::c01::run(&tier, seed),
                "C02" => checks::c02::run(&tier, seed),
                "C03" => checks::c03::run(&tier, seed),
                "C04" => checks::c04::run(&tier, seed),
                "C05" => checks::c05::run(&tier, seed),
                "C06" => checks::c06::run(&tier, seed),
                "C07" => checks::c07::run(&tier, seed),
                "C08" => checks::c08::run(&tier, seed),
                "C09" => checks::c09::run(&tier, seed),
                "C10" => checks::c10::run(&tier, seed),
                "C11" => checks::c11::run(&tier, seed),
                "C12" => checks::c12::run(&tier, seed),
                "C13" => checks::c13::run(&tier, seed),
                "C14" => checks::c14::run(&tier, seed),
                "C15" => checks::c15::run(&tier, seed),
                "C16" => checks::c16::run(&tier, seed),
                "C17" => checks::c17::run(&tier, seed),
                "C18" => checks::c18::run(&tier, seed),
                "C19" => checks::c19::run(&tier, seed),
                "C20" => checks::c20::run(&tier, seed),
                _ => {
                    eprintln!("unknown property {id}");
                    2
                }
            }))
            .unwrap_or_else(|p| {
                let msg = p.downcast_ref::<String>().cloned().or_else(|| p.downcast_ref::<&str>().map(|s| s.to_string())).unwrap_or_default();
                println!("MACHINERY-ERROR property={} the harness panicked outside the explorer: {}", id, msg.chars().take(400).collect::<String>());
                2
            });
            std::process::exit(code);
        }
        "replay" => {
            let txt = std::fs::read_to_string(&args[2]).expect("read replay file");
            let doc: Value = serde_json::from_str(&txt).expect("parse replay file");
            let prop = doc["property"].as_str().unwrap_or("").to_string();
            let ok = match prop.as_str() {
                "C01" => checks::c01::replay(&doc),
                "C02" => checks::c02::replay(&doc),
                "C03" => checks::c03::replay(&doc),
                "C04" => checks::c04::replay(&doc),
                "C05" => checks::c05::replay(&doc),
                "C06" => checks::c06::replay(&doc),
                "C07" => checks::c07::replay(&doc),
                "C08" => checks::c08::replay(&doc),
                "C09" => checks::c09::replay(&doc),
                "C10" => checks::c10::replay(&doc),
                "C11" => checks::c11::replay(&doc),
                "C12" => checks::c12::replay(&doc),
                "C13" => checks::c13::replay(&doc),
                "C14" => checks::c14::replay(&doc),
                "C15" => checks::c15::replay(&doc),
                "C16" => checks::c16::replay(&doc),
                "C17" => checks::c17::replay(&doc),
                "C18" => checks::c18::replay(&doc),
                "C19" => checks::c19::replay(&doc),
                "C20" => checks::c20::replay(&doc),
                _ => {
                    eprintln!("unknown property in replay file");
                    std::process::exit(2)
                }
            };
            std::process::exit(if ok { 1 } else { 0 });
        }
        _ => usage(),
    }
}
