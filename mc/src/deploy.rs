//! Deployment helpers shared by the scenarios: every contract is created through the same
//! entry points the repository's own integration tests use.

use cosmwasm_std::{to_json_binary, Coin, Decimal, Uint128};
use serde::{Deserialize, Serialize};
use white_whale_std::fee::{Fee, VaultFee};
use white_whale_std::pool_network::asset::{Asset, AssetInfo, PairInfo, PairType, TrioInfo};
use white_whale_std::pool_network::pair::PoolFee;

use crate::world::{coin, TxResult, World};

pub const OWNER: &str = "owner";
pub const ALICE: &str = "alice";
pub const BOB: &str = "bob";
pub const CAROL: &str = "carol";
pub const MALLORY: &str = "mallory";
pub const USERS: [&str; 3] = [ALICE, BOB, CAROL];

pub fn native(d: &str) -> AssetInfo {
    AssetInfo::NativeToken { denom: d.to_string() }
}
pub fn token(a: &str) -> AssetInfo {
    AssetInfo::Token { contract_addr: a.to_string() }
}
pub fn asset(info: &AssetInfo, amount: u128) -> Asset {
    Asset { info: info.clone(), amount: Uint128::new(amount) }
}
pub fn dec(atomics: u128) -> Decimal {
    Decimal::new(Uint128::new(atomics))
}
pub const ONE18: u128 = 1_000_000_000_000_000_000;

#[derive(Clone, Copy, Debug, Serialize, Deserialize, PartialEq, Eq, Hash)]
pub struct Fee3 {
    pub protocol: u128,
    pub swap: u128,
    pub burn: u128,
}
impl Fee3 {
    pub const fn new(protocol: u128, swap: u128, burn: u128) -> Self {
        Fee3 { protocol, swap, burn }
    }
    pub fn pool(&self) -> PoolFee {
        PoolFee {
            protocol_fee: Fee { share: dec(self.protocol) },
            swap_fee: Fee { share: dec(self.swap) },
            burn_fee: Fee { share: dec(self.burn) },
        }
    }
    pub fn trio(&self) -> white_whale_std::pool_network::trio::PoolFee {
        white_whale_std::pool_network::trio::PoolFee {
            protocol_fee: Fee { share: dec(self.protocol) },
            swap_fee: Fee { share: dec(self.swap) },
            burn_fee: Fee { share: dec(self.burn) },
        }
    }
    /// (protocol, flash_loan, burn) for vaults
    pub fn vault(&self) -> VaultFee {
        VaultFee {
            protocol_fee: Fee { share: dec(self.protocol) },
            flash_loan_fee: Fee { share: dec(self.swap) },
            burn_fee: Fee { share: dec(self.burn) },
        }
    }
}

pub fn info_balance(w: &World, info: &AssetInfo, addr: &str) -> u128 {
    match info {
        AssetInfo::NativeToken { denom } => w.native_balance(addr, denom),
        AssetInfo::Token { contract_addr } => w.cw20_balance(contract_addr, addr),
    }
}
pub fn info_supply(w: &World, info: &AssetInfo) -> u128 {
    match info {
        AssetInfo::NativeToken { denom } => w.native_supply(denom),
        AssetInfo::Token { contract_addr } => w.cw20_supply(contract_addr),
    }
}
/// give `amount` of the asset to `to` (native: bank mint; cw20: minted by OWNER, the minter)
pub fn fund(w: &mut World, info: &AssetInfo, to: &str, amount: u128) {
    match info {
        AssetInfo::NativeToken { denom } => w.mint_native(to, amount, denom),
        AssetInfo::Token { contract_addr } => {
            w.exec(
                OWNER,
                contract_addr,
                &cw20::Cw20ExecuteMsg::Mint { recipient: to.to_string(), amount: Uint128::new(amount) },
                &[],
            )
            .unwrap_or_else(|e| panic!("cw20 mint failed {:?}", e));
        }
    }
}
pub fn funds_for(assets: &[Asset]) -> Vec<Coin> {
    let mut v: Vec<Coin> = assets
        .iter()
        .filter_map(|a| match &a.info {
            AssetInfo::NativeToken { denom } if !a.amount.is_zero() => Some(coin(a.amount.u128(), denom)),
            _ => None,
        })
        .collect();
    v.sort_by(|a, b| a.denom.cmp(&b.denom));
    v
}

#[derive(Clone, Debug)]
pub struct PoolHub {
    pub collector: String,
    pub factory: String,
}

pub fn deploy_pool_hub(w: &mut World, native_decimals: &[(&str, u8)]) -> PoolHub {
    let collector = w
        .instantiate(
            w.codes.fee_collector,
            OWNER,
            &white_whale_std::fee_collector::InstantiateMsg {},
            &[],
            "fee_collector",
            Some(OWNER),
        )
        .expect("collector");
    let factory = w
        .instantiate(
            w.codes.factory,
            OWNER,
            &white_whale_std::pool_network::factory::InstantiateMsg {
                pair_code_id: w.codes.pair,
                trio_code_id: w.codes.trio,
                token_code_id: w.codes.token,
                fee_collector_addr: collector.clone(),
            },
            &[],
            "pool_factory",
            Some(OWNER),
        )
        .expect("factory");
    for (d, n) in native_decimals {
        w.exec(
            OWNER,
            &factory,
            &white_whale_std::pool_network::factory::ExecuteMsg::AddNativeTokenDecimals {
                denom: d.to_string(),
                decimals: *n,
            },
            &[],
        )
        .expect("add native decimals");
    }
    PoolHub { collector, factory }
}

#[derive(Clone, Debug)]
pub struct PairH {
    pub addr: String,
    pub lp: String,
    pub assets: [AssetInfo; 2],
    pub decimals: [u8; 2],
}

pub fn create_pair(w: &mut World, hub: &PoolHub, assets: [AssetInfo; 2], fees: PoolFee, pair_type: PairType) -> Result<PairH, String> {
    w.exec(
        OWNER,
        &hub.factory,
        &white_whale_std::pool_network::factory::ExecuteMsg::CreatePair {
            asset_infos: assets.clone(),
            pool_fees: fees,
            pair_type,
            token_factory_lp: false,
        },
        &[],
    )
    .map_err(|e| e.msg().to_string())?;
    let pi: PairInfo = w.query(
        &hub.factory,
        &white_whale_std::pool_network::factory::QueryMsg::Pair { asset_infos: assets.clone() },
    )?;
    let lp = match &pi.liquidity_token {
        AssetInfo::Token { contract_addr } => contract_addr.clone(),
        AssetInfo::NativeToken { denom } => denom.clone(),
    };
    Ok(PairH {
        addr: pi.contract_addr.to_string(),
        lp,
        assets: [pi.asset_infos[0].clone(), pi.asset_infos[1].clone()],
        decimals: pi.asset_decimals,
    })
}

#[derive(Clone, Debug)]
pub struct TrioH {
    pub addr: String,
    pub lp: String,
    pub assets: [AssetInfo; 3],
    pub decimals: [u8; 3],
}

pub fn create_trio(
    w: &mut World,
    hub: &PoolHub,
    assets: [AssetInfo; 3],
    fees: white_whale_std::pool_network::trio::PoolFee,
    amp: u64,
) -> Result<TrioH, String> {
    w.exec(
        OWNER,
        &hub.factory,
        &white_whale_std::pool_network::factory::ExecuteMsg::CreateTrio {
            asset_infos: assets.clone(),
            pool_fees: fees,
            amp_factor: amp,
            token_factory_lp: false,
        },
        &[],
    )
    .map_err(|e| e.msg().to_string())?;
    let ti: TrioInfo = w.query(
        &hub.factory,
        &white_whale_std::pool_network::factory::QueryMsg::Trio { asset_infos: assets.clone() },
    )?;
    let lp = match &ti.liquidity_token {
        AssetInfo::Token { contract_addr } => contract_addr.clone(),
        AssetInfo::NativeToken { denom } => denom.clone(),
    };
    Ok(TrioH {
        addr: ti.contract_addr.to_string(),
        lp,
        assets: [ti.asset_infos[0].clone(), ti.asset_infos[1].clone(), ti.asset_infos[2].clone()],
        decimals: ti.asset_decimals,
    })
}

// ------------------------------------------------------------------ pair operations

pub fn pair_provide(w: &mut World, p: &PairH, user: &str, d: [u128; 2], slippage: Option<Decimal>, receiver: Option<&str>) -> TxResult {
    pair_provide_ordered(w, p, user, d, slippage, receiver, false)
}

/// `d` is in the pool's asset order; with `reversed` the message lists the two assets in the opposite order
pub fn pair_provide_ordered(w: &mut World, p: &PairH, user: &str, d: [u128; 2], slippage: Option<Decimal>, receiver: Option<&str>, reversed: bool) -> TxResult {
    let mut assets = [asset(&p.assets[0], d[0]), asset(&p.assets[1], d[1])];
    if reversed {
        assets.swap(0, 1);
    }
    // cw20 sides need an allowance (a separate, always-successful transaction by the user)
    for (i, a) in p.assets.iter().enumerate() {
        if let AssetInfo::Token { contract_addr } = a {
            if d[i] > 0 {
                w.cw20_allow(contract_addr, user, &p.addr, d[i]);
            }
        }
    }
    let r = w.exec(
        user,
        &p.addr,
        &white_whale_std::pool_network::pair::ExecuteMsg::ProvideLiquidity {
            assets: assets.clone(),
            slippage_tolerance: slippage,
            receiver: receiver.map(|s| s.to_string()),
        },
        &funds_for(&assets),
    );
    if r.is_err() {
        // take the allowance back so that a rejected deposit leaves no trace
        for (i, a) in p.assets.iter().enumerate() {
            if let AssetInfo::Token { contract_addr } = a {
                if d[i] > 0 {
                    let _ = w.exec(
                        user,
                        contract_addr,
                        &cw20::Cw20ExecuteMsg::DecreaseAllowance { spender: p.addr.clone(), amount: Uint128::new(d[i]), expires: None },
                        &[],
                    );
                }
            }
        }
    }
    r
}

pub fn pair_withdraw(w: &mut World, pair: &str, lp: &str, user: &str, amount: u128) -> TxResult {
    w.exec(
        user,
        lp,
        &cw20::Cw20ExecuteMsg::Send {
            contract: pair.to_string(),
            amount: Uint128::new(amount),
            msg: to_json_binary(&white_whale_std::pool_network::pair::Cw20HookMsg::WithdrawLiquidity {}).unwrap(),
        },
        &[],
    )
}

pub fn pair_swap(
    w: &mut World,
    pair: &str,
    user: &str,
    offer: &AssetInfo,
    amount: u128,
    belief: Option<Decimal>,
    max_spread: Option<Decimal>,
    to: Option<&str>,
) -> TxResult {
    match offer {
        AssetInfo::NativeToken { denom } => w.exec(
            user,
            pair,
            &white_whale_std::pool_network::pair::ExecuteMsg::Swap {
                offer_asset: asset(offer, amount),
                belief_price: belief,
                max_spread,
                to: to.map(|s| s.to_string()),
            },
            &[coin(amount, denom)],
        ),
        AssetInfo::Token { contract_addr } => w.exec(
            user,
            contract_addr,
            &cw20::Cw20ExecuteMsg::Send {
                contract: pair.to_string(),
                amount: Uint128::new(amount),
                msg: to_json_binary(&white_whale_std::pool_network::pair::Cw20HookMsg::Swap {
                    belief_price: belief,
                    max_spread,
                    to: to.map(|s| s.to_string()),
                })
                .unwrap(),
            },
            &[],
        ),
    }
}

/// (reported reserves, total_share) from the pair's own Pool query
pub fn pair_pool(w: &World, pair: &str) -> Result<([u128; 2], u128), String> {
    let r: white_whale_std::pool_network::pair::PoolResponse =
        w.query(pair, &white_whale_std::pool_network::pair::QueryMsg::Pool {})?;
    Ok(([r.assets[0].amount.u128(), r.assets[1].amount.u128()], r.total_share.u128()))
}
pub fn pair_fees(w: &World, pair: &str, all_time: bool) -> Result<[u128; 2], String> {
    let r: white_whale_std::pool_network::pair::ProtocolFeesResponse = w.query(
        pair,
        &white_whale_std::pool_network::pair::QueryMsg::ProtocolFees { asset_id: None, all_time: Some(all_time) },
    )?;
    Ok([r.fees[0].amount.u128(), r.fees[1].amount.u128()])
}
pub fn pair_burned(w: &World, pair: &str) -> Result<[u128; 2], String> {
    let r: white_whale_std::pool_network::pair::ProtocolFeesResponse =
        w.query(pair, &white_whale_std::pool_network::pair::QueryMsg::BurnedFees { asset_id: None })?;
    Ok([r.fees[0].amount.u128(), r.fees[1].amount.u128()])
}
