#!/bin/bash
# runs every quick check in sequence against /repo, prints verdict + wall time per property
cd /verif
rc=0
for i in $(seq -w 1 20); do
  id=C$i; t0=$(date +%s.%N)
  out=$(./run $id ${1:-quick} 2>&1); code=$?
  t1=$(date +%s.%N)
  printf "%s exit=%d %.1fs :: %s\n" $id $code $(echo "$t1 - $t0" | bc) "$(echo "$out" | grep -E '^OK|^VIOLATION|^MACHINERY' | head -2 | cut -c1-200 | tr '\n' ' ')"
  [ $code -ne 0 ] && rc=1
done
exit $rc
